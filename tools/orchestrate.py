#!/usr/bin/env python3
"""Orchestrator for the runtime monitors.  ./check <ID> [--tier quick|thorough] [--replay path]

1. builds the engine binary for the property from /repo's *current working tree* (overlay build, tag verif)
2. runs it as child processes (one per shard), each under a generous wall-clock watchdog
3. merges the children's reports into /verif/evidence/<ID>.json, matches violations against
   /verif/known_findings.json, prints KNOWN-FINDING / VIOLATION / INCONCLUSIVE lines, sets the exit code
   (0 held on everything observed; 1 violation; 2 inconclusive).
"""
import sys, os, json, subprocess, time, re, shutil, glob, hashlib
from concurrent.futures import ThreadPoolExecutor

VERIF = os.path.dirname(os.path.dirname(os.path.abspath(__file__)))
REPO = os.environ.get("VERIF_REPO", "/repo")
BUILD = os.environ.get("VERIF_BUILD", os.path.join(VERIF, ".build"))
EVID = os.environ.get("VERIF_EVIDENCE_DIR", os.path.join(VERIF, "evidence"))
REPLAYS = os.environ.get("VERIF_REPLAY_DIR", os.path.join(VERIF, "replays"))
sys.path.insert(0, os.path.join(VERIF, "tools"))
from checks import CHECKS  # noqa: E402

GOENV = dict(os.environ, GOFLAGS="-mod=mod", GOPROXY="off", GOSUMDB="off", GOTOOLCHAIN="local")
GOENV.pop("GOWORK", None)


def log(*a):
    print(*a, flush=True)


# --------------------------------------------------------------------------------------------- build

def make_overlay():
    rep = {}
    hroot = os.path.join(VERIF, "harness")
    for pkg in sorted(os.listdir(hroot)):
        d = os.path.join(hroot, pkg)
        if not os.path.isdir(d):
            continue
        if pkg == "_inject":
            for root, _, files in os.walk(d):
                for f in files:
                    src = os.path.join(root, f)
                    rel = os.path.relpath(src, d)
                    rep[os.path.join(REPO, rel)] = src
            continue
        for root, _, files in os.walk(d):
            for f in files:
                if f.endswith(".go"):
                    src = os.path.join(root, f)
                    rel = os.path.relpath(src, hroot)
                    rep[os.path.join(REPO, "internal", "verif", rel)] = src
    os.makedirs(BUILD, exist_ok=True)
    path = os.path.join(BUILD, "overlay.json")
    with open(path, "w") as fh:
        json.dump({"Replace": rep}, fh, indent=1)
    return path


def make_modfile(extra_requires):
    """Copy of /repo/go.mod with extra requires (porcupine ...) - only when an engine needs them."""
    if not extra_requires:
        return None
    mod = os.path.join(BUILD, "verif.mod")
    shutil.copy(os.path.join(REPO, "go.mod"), mod)
    shutil.copy(os.path.join(REPO, "go.sum"), os.path.join(BUILD, "verif.sum"))
    s = open(mod).read().replace("=> ./libs", "=> %s/libs" % REPO)
    open(mod, "w").write(s)
    for r in extra_requires:
        subprocess.run(["go", "mod", "edit", "-modfile=" + mod, "-require=" + r], cwd=REPO, env=GOENV, check=True)
    return mod


def build(engine, race, extra_requires=None):
    overlay = make_overlay()
    os.makedirs(os.path.join(BUILD, "bin"), exist_ok=True)
    out = os.path.join(BUILD, "bin", engine + ("-race" if race else ""))
    cmd = ["go", "build", "-tags", "verif", "-overlay", overlay]
    mod = make_modfile(extra_requires)
    if mod:
        cmd += ["-modfile=" + mod]
    if race:
        cmd += ["-race"]
    cmd += ["-o", out, "./internal/verif/%s/" % engine]
    t0 = time.time()
    p = subprocess.run(cmd, cwd=REPO, env=GOENV, stdout=subprocess.PIPE, stderr=subprocess.STDOUT, text=True)
    if p.returncode != 0:
        return None, p.stdout
    log("[build] %s%s %.1fs" % (engine, " -race" if race else "", time.time() - t0))
    return out, ""


# --------------------------------------------------------------------------------------------- run

RACE_HDR = "WARNING: DATA RACE"


def parse_race_logs(prefix):
    """Return list of (signature, text) for each race block; signature = sorted set of the innermost repository frames of
    the two conflicting accesses (line numbers and closure suffixes stripped)."""
    res = []
    for f in sorted(glob.glob(prefix + "*")):
        txt = open(f, errors="replace").read()
        for blk in txt.split("=================="):
            if RACE_HDR not in blk:
                continue
            frames = []
            for sec in re.split(r"\n\s*\n", blk):
                head = sec.strip().split("\n", 1)[0]
                if head.startswith(RACE_HDR):
                    head = sec.strip().split("\n", 2)[1] if "\n" in sec.strip() else ""
                if not re.match(r"(Previous )?(read|write|atomic read|atomic write)", head, re.I):
                    continue
                fr = None
                for m in re.finditer(r"^\s+(github\.com/formancehq/\S+)\(", sec, re.M):
                    fn = m.group(1)
                    if "/internal/verif/" in fn:
                        continue
                    fr = re.sub(r"\.func\d+(\.\d+)*$", "", fn)
                    fr = re.sub(r"\[[^\]]*\]", "", fr)
                    break
                frames.append(fr or "harness-or-runtime")
            sig = "race:" + "|".join(sorted(set(frames))) if frames else "race:unparsed"
            res.append((sig, blk.strip()[:6000]))
    return res


def run_children(pid, spec, run, binpath, tier, seed, replay):
    outdir = os.path.join(BUILD, "out", pid)
    os.makedirs(outdir, exist_ok=True)
    mode = run.get("mode", "")
    nshards = run["shards"][tier] if isinstance(run["shards"], dict) else run["shards"]
    timeout = run.get("timeout", {"quick": 600, "thorough": 3600})[tier]
    jobs = []
    only = None
    if replay:
        nshards = replay["nshards"]
        only = replay
    for sh in range(nshards):
        if only and sh != only["shard"]:
            continue
        tag = "%s%s-%d" % (mode or "main", "", sh)
        out = os.path.join(outdir, tag + ".json")
        logf = os.path.join(outdir, tag + ".log")
        racep = os.path.join(outdir, tag + ".race")
        for f in glob.glob(out + "*") + glob.glob(racep + "*") + [logf]:
            try:
                os.remove(f)
            except OSError:
                pass
        cmd = ["timeout", "-s", "QUIT", str(timeout), binpath, "-prop", pid, "-tier", tier, "-seed", str(seed),
               "-shard", str(sh), "-nshards", str(nshards), "-out", out]
        if mode:
            cmd += ["-mode", mode]
        if only:
            cmd += ["-only", str(only["index"])]
        env = dict(os.environ)
        if run.get("race"):
            env["GORACE"] = "halt_on_error=0 log_path=%s history_size=3" % racep
        env.update(run.get("env", {}))
        jobs.append((sh, cmd, env, out, logf, racep))

    def one(j):
        sh, cmd, env, out, logf, racep = j
        with open(logf, "w") as lf:
            rc = subprocess.run(cmd, env=env, stdout=lf, stderr=subprocess.STDOUT).returncode
        return sh, rc, out, logf, racep

    par = run.get("parallel", 16)
    with ThreadPoolExecutor(max_workers=par) as ex:
        return list(ex.map(one, jobs)), mode


def first_repo_frame(text):
    for m in re.finditer(r"^(github\.com/formancehq/\S+)\(", text, re.M):
        fn = m.group(1)
        if "/internal/verif/" in fn:
            continue
        return re.sub(r"\.func\d+(\.\d+)*$", "", fn)
    return "unknown"


# --------------------------------------------------------------------------------------------- main

def load_known():
    p = os.path.join(VERIF, "known_findings.json")
    if not os.path.exists(p):
        return []
    return json.load(open(p))["findings"]


def main():
    args = sys.argv[1:]
    if not args:
        log("usage: check <ID> [--tier quick|thorough] [--replay path]")
        return 3
    pid = args[0]
    tier = os.environ.get("VERIF_TIER", "quick")
    replay = None
    i = 1
    while i < len(args):
        if args[i] == "--tier":
            tier = args[i + 1]; i += 2
        elif args[i] == "--replay":
            replay = json.load(open(args[i + 1])); i += 2
        else:
            log("unknown arg", args[i]); return 3
    if tier not in ("quick", "thorough"):
        tier = "quick"
    seed = int(os.environ.get("VERIF_SEED", "1") or "1")
    if replay:
        seed = replay["seed"]; tier = replay["tier"]
    if pid not in CHECKS:
        log("unknown property", pid); return 3
    spec = CHECKS[pid]
    t0 = time.time()
    evidence_path = os.path.join(EVID, pid + ".json")
    if not replay:
        try:
            os.remove(evidence_path)
        except OSError:
            pass

    merged = dict(evaluations=0, counters={}, distinct=set(), samples=[], violations=[], inconclusive=[], viol_count=0)
    runs = [r for r in spec["runs"] if tier in r.get("tiers", ("quick", "thorough"))]
    if replay:
        runs = [r for r in runs if r.get("mode", "") == replay.get("mode", "")]
    for run in runs:
        binpath, err = build(run.get("engine", spec["engine"]), run.get("race", False), spec.get("requires"))
        if binpath is None:
            log(err[-4000:])
            merged["inconclusive"].append("harness does not build against the working tree (mode %s)" % run.get("mode", ""))
            continue
        results, mode = run_children(pid, spec, run, binpath, tier, seed, replay)
        for sh, rc, out, logf, racep in results:
            rep = None
            if os.path.exists(out):
                try:
                    rep = json.load(open(out))
                except Exception:
                    rep = None
            logtxt = open(logf, errors="replace").read() if os.path.exists(logf) else ""
            if rep:
                merged["evaluations"] += rep["evaluations"]
                for k, v in rep["counters"].items():
                    if k.startswith("max_"):
                        merged["counters"][k] = max(merged["counters"].get(k, 0), v)
                    else:
                        merged["counters"][k] = merged["counters"].get(k, 0) + v
                merged["distinct"].update(rep["distinct"] or [])
                for s in (rep["samples"] or []):
                    if len(merged["samples"]) < 6:
                        merged["samples"].append(s)
                for v in (rep["violations"] or []):
                    v["shard"] = sh; v["mode"] = mode; v["nshards"] = len(results) if not replay else replay["nshards"]
                    merged["violations"].append(v)
                merged["viol_count"] += rep.get("viol_count", 0)
                merged["inconclusive"] += [("[%s/%d] " % (mode, sh)) + x for x in (rep["inconclusive"] or [])]
            if rc != 0 or not rep or not rep.get("done"):
                cur = None
                if os.path.exists(out + ".current"):
                    try:
                        cur = json.load(open(out + ".current"))
                    except Exception:
                        cur = open(out + ".current", errors="replace").read()[:2000]
                fatal = re.search(r"^(panic: .*|fatal error: .*)$", logtxt, re.M)
                if rc in (124, 131, 137) or "SIGQUIT" in logtxt[:20000] and not fatal:
                    merged["inconclusive"].append("[%s/%d] watchdog: child exceeded its wall-clock limit (rc=%d); see %s" % (mode, sh, rc, logf))
                elif fatal and run.get("fatal_is_violation"):
                    idx = logtxt.find(fatal.group(0))
                    frame = first_repo_frame(logtxt[idx:])
                    cls = re.sub(r"0x[0-9a-f]+|\d+", "N", fatal.group(1))[:80]
                    merged["violations"].append(dict(signature="fatal:%s@%s" % (cls, frame), what=logtxt[idx:idx + 3000], index=(cur or {}).get("index", -1) if isinstance(cur, dict) else -1,
                                                     case=cur, shard=sh, mode=mode, nshards=len(results)))
                    merged["viol_count"] += 1
                else:
                    merged["inconclusive"].append("[%s/%d] child ended abnormally rc=%d (%s); see %s" % (mode, sh, rc, fatal.group(0) if fatal else "no report", logf))
            if run.get("race"):
                for sig, blk in parse_race_logs(racep):
                    anchors = spec.get("race_anchor")
                    if "harness-or-runtime" in sig and not re.search(r"formancehq", sig):
                        merged["inconclusive"].append("[%s/%d] race report without repository frames (harness bug?): %s" % (mode, sh, blk[:400]))
                        continue
                    if anchors and not re.search(anchors, blk):
                        # a race outside the code this property is anchored in: reported, not a verdict on this property
                        merged["counters"]["race_reports_outside_anchor"] = merged["counters"].get("race_reports_outside_anchor", 0) + 1
                        continue
                    merged["violations"].append(dict(signature=sig, what=blk, index=-1, case=None, shard=sh, mode=mode, nshards=len(results)))
                    merged["viol_count"] += 1
                merged["counters"]["race_detector_runs"] = merged["counters"].get("race_detector_runs", 0) + 1

    # ---- thresholds (non-vacuity)
    if not replay:
        for k, mn in spec.get("thresholds", {}).get(tier, {}).items():
            got = merged["evaluations"] if k == "evaluations" else merged["counters"].get(k, 0)
            if got < mn:
                merged["inconclusive"].append("non-vacuity: %s=%d < %d" % (k, got, mn))

    # ---- known findings
    known = [k for k in load_known() if k["property"] == pid and k["status"] == "known"]
    rc = 0
    seen_known = {}
    new = []
    for v in merged["violations"]:
        k = next((k for k in known if k["signature"] == v["signature"]), None)
        if k:
            seen_known.setdefault(k["signature"], k)
        else:
            new.append(v)
    for sig, k in seen_known.items():
        log("KNOWN-FINDING: property=%s %s -- %s" % (pid, sig, k["what"]))
    os.makedirs(REPLAYS, exist_ok=True)
    bysig = {}
    for v in new:
        bysig.setdefault(v["signature"], []).append(v)
    n = 0
    for sig, vs in bysig.items():
        v = vs[0]
        n += 1
        path = os.path.join(REPLAYS, "%s-%d-%d.json" % (pid, seed, n))
        json.dump(dict(property=pid, tier=tier, seed=seed, mode=v.get("mode", ""), shard=v.get("shard", 0), nshards=v.get("nshards", 1),
                       index=v.get("index", -1), signature=sig, what=v["what"], case=v.get("case"), occurrences=len(vs)),
                  open(path, "w"), indent=1, default=str)
        log("VIOLATION property=%s replay=%s" % (pid, path))
        log("  signature: %s" % sig)
        log("  what: %s" % str(v["what"])[:1500].replace("\n", "\n        "))
        rc = 1
    for x in merged["inconclusive"][:20]:
        log("INCONCLUSIVE property=%s reason=%s" % (pid, x))
    if rc == 0 and merged["inconclusive"]:
        rc = 2

    # ---- evidence
    cov = dict(evaluations=int(merged["evaluations"]), distinct_nontrivial=len(merged["distinct"]), rule=spec["rule"],
               samples=merged["samples"] or [], counters=dict(sorted(merged["counters"].items())))
    if spec["level"] == "translation_validation":
        cov["programs"] = int(merged["counters"].get("programs", merged["evaluations"]))
        cov["disagreements_checked"] = int(merged["counters"].get("disagreements_checked", 0))
    if spec.get("exhaustive_counter") and merged["counters"].get(spec["exhaustive_counter"], 0) > 0:
        cov["exhaustive_part"] = spec.get("exhaustive_note", "")
    cov["known_findings_seen"] = sorted(seen_known)
    cov["new_violation_signatures"] = sorted(bysig)
    cov["inconclusive"] = merged["inconclusive"][:20]
    ev = dict(property_id=pid, tier=tier, seed=seed, level=spec["level"], coverage=cov,
              assumptions=spec.get("assumptions", []), wall_s=round(time.time() - t0, 2),
              violations=len(new), verdict={0: "held-on-observed", 1: "violated", 2: "inconclusive"}[rc])
    if not replay:
        os.makedirs(os.path.dirname(evidence_path), exist_ok=True)
        json.dump(ev, open(evidence_path, "w"), indent=1, default=str)
    log("[%s] tier=%s seed=%d evaluations=%d distinct=%d violations(new)=%d known=%d inconclusive=%d wall=%.1fs -> exit %d" % (
        pid, tier, seed, merged["evaluations"], len(merged["distinct"]), len(new), len(seen_known), len(merged["inconclusive"]), time.time() - t0, rc))
    key = [k for k in sorted(merged["counters"])][:60]
    log("  counters: " + ", ".join("%s=%d" % (k, merged["counters"][k]) for k in key))
    return rc


if __name__ == "__main__":
    sys.exit(main())
