#!/bin/bash
# tools/allthorough.sh [ids...] : every thorough command once, evidence into a scratch dir, one line per check
cd /verif
ids=${@:-C01 C02 C03 C04 C05 C06 C07 C08 C09 C10 C11 C12 C13 C14 C15 C16 C17 C18 C19 C20}
export VERIF_EVIDENCE_DIR=/tmp/ev-thorough VERIF_REPLAY_DIR=/tmp/ev-thorough/replays
mkdir -p $VERIF_EVIDENCE_DIR
for id in $ids; do
  s=$(date +%s)
  ./check $id --tier thorough > /tmp/ev-thorough/$id.out 2>&1; rc=$?
  e=$(date +%s)
  echo "$id rc=$rc wall=$((e-s))s $(grep -E '^(VIOLATION|KNOWN-FINDING|INCONCLUSIVE)' /tmp/ev-thorough/$id.out | head -3 | tr '\n' ' ')"
done
