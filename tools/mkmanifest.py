#!/usr/bin/env python3
"""Regenerate /verif/MANIFEST.json from tools/checks.py (claimed checks) + tools/na.json (not_applicable reasons)."""
import json, os, sys, subprocess
V = os.path.dirname(os.path.dirname(os.path.abspath(__file__)))
sys.path.insert(0, os.path.join(V, "tools"))
from checks import CHECKS
props = [json.loads(l) for l in open(os.path.join(V, "properties.jsonl"))]
na_reasons = json.load(open(os.path.join(V, "tools", "na.json"))) if os.path.exists(os.path.join(V, "tools", "na.json")) else {}
hooks_commits = []
try:
    out = subprocess.run(["git", "-C", "/repo", "log", "--format=%H %s"], stdout=subprocess.PIPE, text=True).stdout
    hooks_commits = [l.split()[0] for l in out.splitlines() if " verif hooks" in l or l.split(" ", 1)[1].startswith("verif:")]
except Exception:
    pass
ENV = "GOFLAGS=-mod=mod GOPROXY=off GOSUMDB=off GOTOOLCHAIN=local"
engines = {}
checks = []
for p in props:
    pid = p["id"]
    if pid not in CHECKS:
        continue
    s = CHECKS[pid]
    engines.setdefault(s["engine"], []).append(pid)
    checks.append({
        "property_id": pid,
        "quick_cmd": "./check %s --tier quick" % pid,
        "thorough_cmd": "./check %s --tier thorough" % pid,
        "evidence_file": "/verif/evidence/%s.json" % pid,
        "replay_cmd_template": "./check %s --replay {path}" % pid,
        "engine": s["engine"],
        "level_claimed": {"category": s["level"], "text": s["claim"], "design_ref": "DESIGN.md §5 " + pid},
        "level_note": s["note"],
        "technique": s["technique"],
    })
m = {
    "version": 1,
    "setup_cmd": "./tools/setup.sh",
    "hooks": {"guard": "verif",
              "enable": "go build -tags verif -overlay /verif/.build/overlay.json ./internal/verif/<engine>/ from /repo (harness sources are mounted from /verif/harness by the overlay; hook call sites in /repo are compiled in by the tag)",
              "baseline_off_cmd": "cd /repo && %s go test -vet=off -count=1 ./... ; cd /repo/libs && %s go test -vet=off -count=1 ./..." % (ENV, ENV),
              "source_commits": hooks_commits, "add_only": True},
    "engines": [{"name": e, "path": "/verif/harness/" + e, "serves_properties": ps,
                 "kind_free_text": "Go program built from /repo's working tree (overlay build); runs generated workloads against the real packages and checks monitors/oracles over what it observed"} for e, ps in engines.items()],
    "checks": checks,
    "notes": "Runtime monitoring; see DESIGN.md. Exit 0 = held on everything observed (known findings are printed as KNOWN-FINDING lines), 1 = VIOLATION (replay file named), 2 = INCONCLUSIVE (watchdog / non-vacuity threshold / harness does not build).",
    "not_applicable": [{"property_id": p["id"], "reason": na_reasons.get(p["id"], "monitor not built yet (work in progress; see DESIGN.md §5)")} for p in props if p["id"] not in CHECKS],
}
json.dump(m, open(os.path.join(V, "MANIFEST.json"), "w"), indent=1)
print("claimed:", [c["property_id"] for c in checks], "na:", [x["property_id"] for x in m["not_applicable"]])
