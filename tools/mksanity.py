#!/usr/bin/env python3
"""Create my own sanity mutations (DESIGN §8) as seeded/S-<name>/{patch.diff,meta.json}. Not independent of the checks
(I wrote both) - they complement the sub-agents' seeds. Each must build; the repository suite result is recorded."""
import subprocess, os, json, sys
WT = '/tmp/sanity-wt'
ENV = dict(os.environ, GOFLAGS='-mod=mod', GOPROXY='off', GOSUMDB='off', GOTOOLCHAIN='local')
M = [
 ('bounded-overdraft-becomes-unbounded', 'C01', ['C01', 'C08'], 'internal/machine/script/compiler/source.go',
  '''				p.AppendInstruction(program.OP_TAKE_ALL)
			case *parser.SrcAccountOverdraftUnboundedContext:''',
  '''				p.AppendInstruction(program.OP_TAKE_ALL)
				f := FallbackAccount(*accAddr)
				fallback = &f
			case *parser.SrcAccountOverdraftUnboundedContext:''', 'a bounded overdraft clause is compiled like an unbounded one'),
 ('leftover-units-to-last-entries', 'C03', ['C03', 'C08'], 'internal/machine/allotment.go',
  '''	for i := range parts {
		if totalAllocated.Lt(amount) {''', '''	for i := len(parts) - 1; i >= 0; i-- {
		if totalAllocated.Lt(amount) {''', 'leftover units of an allotment go to the last entries instead of the earliest'),
 ('isub-operands-swapped', 'C08', ['C08'], 'internal/machine/vm/machine.go',
  '''		a := pop[machine.Number](m)
		m.pushValue(a.Sub(b))''', '''		a := pop[machine.Number](m)
		m.pushValue(b.Sub(a))''', 'number subtraction computes b-a'),
 ('init-does-not-reload-last-txid', 'C05', ['C05'], 'internal/engine/command/commander.go',
  '''	if lastTx != nil {
		commander.lastTXID = lastTx.ID
	}''', '''	_ = lastTx''', 'after a restart transaction ids start again at 0'),
 ('ack-at-handoff', 'C06', ['C06'], 'internal/engine/command/context.go',
  '''	e.commander.Append(chainedLog, func() {
		close(done)
	})''', '''	e.commander.Append(chainedLog, func() {})
	close(done)''', 'the request is acknowledged when its log is handed to the batcher, not when it is persisted'),
 ('insertlogs-error-swallowed', 'C06', ['C06'], 'internal/engine/utils/job/jobs.go',
  '''					if err := r.runner(ctx, job); err != nil {
						panic(err)
					}''', '''					if err := r.runner(ctx, job); err != nil {
						logger.Errorf("job failed: %s", err)
					}''', 'a failing InsertLogs is only logged: the batch is acknowledged although nothing was written'),
 ('ik-store-lookup-skipped', 'C07', ['C07'], 'internal/engine/command/context.go',
  '''		chainedLog, err := e.commander.store.ReadLogWithIdempotencyKey(ctx, ik)
		verifhook.Yield(ctx, "run.ik.checked")
		if err == nil {
			return chainedLog, nil
		}''', '''		chainedLog, err := e.commander.store.ReadLogWithIdempotencyKey(ctx, ik)
		verifhook.Yield(ctx, "run.ik.checked")
		if err == nil && chainedLog == nil {
			return chainedLog, nil
		}''', 'a persisted idempotency key is not honoured (only the in-memory reservation protects)'),
 ('revert-does-not-swap-endpoints', 'C10', ['C10'], 'internal/posting.go',
  '''	for i := range p {
		p[i].Source, p[i].Destination = p[i].Destination, p[i].Source
	}
''', '', 'Postings.Reverse only reverses the order'),
 ('already-reverted-test-skipped', 'C10', ['C10'], 'internal/engine/command/commander.go',
  '''	if transactionToRevert.Reverted {''', '''	if transactionToRevert.Reverted && false {''', 'a reverted transaction can be reverted again'),
 ('reference-store-lookup-skipped', 'C11', ['C11'], 'internal/engine/command/commander.go',
  '''			if err == nil {
				return nil, nil, NewErrConflict()
			}
			if err != nil && !storageerrors.IsNotFoundError(err) {''', '''			if err != nil && !storageerrors.IsNotFoundError(err) {''', 'a reference already committed is only protected by the in-memory reservation'),
 ('hash-ignores-previous-hash', 'C13', ['C13', 'C05'], 'internal/log.go',
  '''	if previous != nil {
		if err := enc.Encode(previous.Hash); err != nil {
			panic(err)
		}
	}''', '''	_ = previous''', 'the hash covers only the entry itself'),
 ('writers-ignore-readers', 'C15', ['C15', 'C02'], 'internal/engine/command/lock.go',
  '''	for _, account := range intent.accounts.Write {
		_, ok := chain.readLocks[account]
		if ok {
			return false
		}
		_, ok = chain.writeLocks[account]''', '''	for _, account := range intent.accounts.Write {
		_, ok := chain.writeLocks[account]''', 'a write lock is granted while readers hold the account'),
 ('recheck-stops-at-first-failure', 'C15', ['C15'], 'internal/engine/command/lock.go',
  '''			if node.Value().tryLock(ctx, defaultLocker) {
				node.Remove()
				close(node.Value().acquired)
			}''', '''			if node.Value().tryLock(ctx, defaultLocker) {
				node.Remove()
				close(node.Value().acquired)
			} else {
				break
			}''', 'a release only serves the head of the queue'),
 ('deleted-metadata-event-without-key', 'C16', ['C16'], 'internal/engine/command/commander.go',
  '''		commander.monitor.DeletedMetadata(ctx, targetType, targetID, key)''', '''		commander.monitor.DeletedMetadata(ctx, targetType, targetID, "")''', 'the DELETED_METADATA event does not name the key'),
 ('column-pagination-no-extra-row', 'C17', ['C17'], 'libs/bun/bunpaginate/pagination_column.go',
  '''	sb = sb.Limit(int(query.PageSize) + 1) // Fetch one additional item to find the next token''', '''	sb = sb.Limit(int(query.PageSize))''', 'no extra row is fetched: hasMore is never true'),
 ('column-pagination-next-exclusive', 'C17', ['C17'], 'libs/bun/bunpaginate/pagination_column.go',
  '''				sb = sb.Where(fmt.Sprintf("%s <= ?", query.Column), query.PaginationID)''', '''				sb = sb.Where(fmt.Sprintf("%s < ?", query.Column), query.PaginationID)''', 'descending next page skips the boundary row'),
 ('offset-previous-off-by-one', 'C17', ['C17'], 'libs/bun/bunpaginate/pagination_offset.go',
  '''		offset := int(query.Offset) - int(query.PageSize)''', '''		offset := int(query.Offset) - int(query.PageSize) - 1''', 'previous page of an offset cursor is shifted by one'),
 ('bulk-add-metadata-continue-inverted', 'C18', ['C18'], 'internal/api/v2/bulk.go',
  '''				case command.IsSaveMetaError(err, command.ErrSaveMetaCodeTransactionNotFound):
					code = sharedapi.ErrorCodeNotFound
				default:
					code = sharedapi.ErrorInternal
				}
				bulkError(element.Action, code, err)
				if !continueOnFailure {''', '''				case command.IsSaveMetaError(err, command.ErrSaveMetaCodeTransactionNotFound):
					code = sharedapi.ErrorCodeNotFound
				default:
					code = sharedapi.ErrorInternal
				}
				bulkError(element.Action, code, err)
				if continueOnFailure {''', 'continueOnFailure is inverted for ADD_METADATA'),
 ('read-only-only-blocks-post', 'C19', ['C19'], 'internal/api/read_only.go',
  '''		if r.Method != http.MethodGet && r.Method != http.MethodOptions && r.Method != http.MethodHead {''', '''		if r.Method == http.MethodPost {''', 'read-only mode lets DELETE through'),
 ('reference-filter-formatted', 'C20', ['C20'], 'internal/storage/ledgerstore/transactions.go',
  '''			return fmt.Sprintf("%s %s ?", key, query.DefaultComparisonOperatorsMapping[operator]), []any{value}, nil''', '''			return fmt.Sprintf("%s %s '%v'", key, query.DefaultComparisonOperatorsMapping[operator], value), nil, nil''', 'reference / timestamp filter values are formatted into the statement'),
 ('dry-run-appends', 'C14', ['C14', 'C16'], 'internal/engine/command/context.go',
  '''	if e.parameters.DryRun {
		ret := make(chan struct{})
		close(ret)
		return logBuilder().ChainLog(nil), ret, nil
	}
''', '', 'a dry run is appended like a real write'),
 ('sources-not-write-locked', 'C02', ['C02'], 'internal/engine/command/commander.go',
  '''			Write: collectionutils.Filter(involvedSources, worldFilter),''', '''			Write: nil,''', 'sources are only read-locked'),
 ('posting-mode-drops-reference', 'C09', ['C09'], 'internal/numscript.go',
  '''		Reference: txData.Reference,
	}
}''', '''	}
}''', 'posting-mode requests lose their reference'),
 ('count-scoping-dropped-in-balance-filter', 'C04', ['C04'], 'internal/storage/ledgerstore/accounts.go',
  '''				where account_address = accounts.address and ledger = ?
				order by seq desc
				limit 1
			) < ?`, []any{store.name, value}, nil''', '''				where account_address = accounts.address
				order by seq desc
				limit 1
			) < ?`, []any{value}, nil''', 'the balance filter sub-select is not confined to the ledger'),
]
subprocess.run(['git', '-C', '/repo', 'worktree', 'add', '-q', '--detach', WT, 'HEAD'], check=True)
try:
    for name, prop, checks, f, a, b, what in M:
        p = os.path.join(WT, f)
        s = open(p).read()
        if s.count(a) != 1:
            print('SKIP', name, 'pattern count', s.count(a)); continue
        open(p, 'w').write(s.replace(a, b))
        r = subprocess.run(['go', 'build', './...'], cwd=WT, env=ENV, stdout=subprocess.PIPE, stderr=subprocess.STDOUT, text=True)
        r2 = subprocess.run(['go', 'build', './...'], cwd=WT + '/libs', env=ENV, stdout=subprocess.PIPE, stderr=subprocess.STDOUT, text=True)
        if r.returncode or r2.returncode:
            print('NOBUILD', name, (r.stdout + r2.stdout)[-300:]); subprocess.run(['git', '-C', WT, 'checkout', '-q', '--', '.']); continue
        pk = './' + os.path.dirname(f) + '/...'
        cwd = WT
        if f.startswith('libs/'):
            cwd = WT + '/libs'; pk = './' + os.path.dirname(f)[5:] + '/...'
        t = subprocess.run('go test -vet=off -count=1 ./internal/machine/... ./internal/engine/command/ ./internal/api/... ./internal/ ./internal/bus/ 2>&1 | grep -E "^(FAIL|---)" | head -5', shell=True, cwd=WT, env=ENV, stdout=subprocess.PIPE, text=True).stdout.strip()
        d = '/verif/seeded/S-' + name
        os.makedirs(d, exist_ok=True)
        diff = subprocess.run(['git', '-C', WT, 'diff'], stdout=subprocess.PIPE, text=True).stdout
        open(d + '/patch.diff', 'w').write(diff)
        json.dump({'property': prop, 'checks': checks, 'needs': what, 'origin': 'own sanity mutation (written by the author of the checks, not independent)',
                   'existing_suite': 'fails: ' + t if t else 'unit-testable packages still pass'}, open(d + '/meta.json', 'w'), indent=1)
        print('OK', name, '| suite:', t[:80] if t else 'pass')
        subprocess.run(['git', '-C', WT, 'checkout', '-q', '--', '.'])
finally:
    subprocess.run(['git', '-C', '/repo', 'worktree', 'remove', '--force', WT])
