#!/usr/bin/env python3
# tools/show.py <report.json> <signature substring> [n]
import json,sys
r=json.load(open(sys.argv[1])); sub=sys.argv[2]; n=int(sys.argv[3]) if len(sys.argv)>3 else 1
k=0
for v in r['violations'] or []:
    if sub in v['signature']:
        print('=====',v['signature'],'index',v['index']); print(str(v['what'])[:1500])
        c=v.get('case')
        if isinstance(c,dict):
            for kk,vv in c.items():
                if kk=='script': print(vv)
                else: print(' ',kk,':',json.dumps(vv)[:1500])
        else: print(c)
        k+=1
        if k>=n: break
