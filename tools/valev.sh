#!/bin/bash
# validate all evidence files against the schema
python3-vt - <<'PY'
import json,jsonschema,glob
sch=json.load(open('/root/.vp/EVIDENCE.schema.json'))
for f in sorted(glob.glob('/verif/evidence/*.json')):
    try:
        jsonschema.validate(json.load(open(f)),sch); print('ok',f)
    except Exception as e: print('INVALID',f,str(e)[:300])
PY
