"""Per-property configuration of the monitors (engine, runs, non-vacuity thresholds, evidence texts)."""

CHECKS = {}
