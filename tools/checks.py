"""Per-property configuration of the monitors (engine, runs, non-vacuity thresholds, evidence texts)."""

T = {"quick": 900, "thorough": 5400}

CHECKS = {
    "C01": dict(
        claim="Exploration: held on N generated executions per run (counts in the evidence file). A running-balance monitor over the postings the real VM emits, for generated programs aimed at the overdraft floor (hot accounts, nested caps, bounded/unbounded overdraft, negative and >64-bit balances), plus the rejection class against an independent reference. Not a proof; reach is the generator's.",
        note="Trusted: the harness' extraction of overdraft grants from its own AST, the reference evaluator for 'sources cannot cover', vm.StaticStore as store. Commander-level 'no log on rejection' is covered by C06.",
        technique='runtime invariant monitor over emitted postings + differential rejection class, generated workloads',
        engine="vmmon", level="exploration",
        runs=[dict(mode="", shards={"quick": 8, "thorough": 16}, timeout=T)],
        thresholds={"quick": {"evaluations": 3000, "real_ok": 800, "real_insufficient": 200, "tight_floor": 100},
                    "thorough": {"evaluations": 250000, "real_ok": 60000, "real_insufficient": 15000, "tight_floor": 8000}},
        rule="generated multi-send Numscript programs over 3 hot accounts (nested ordered/capped/portioned sources, bounded and unbounded "
             "overdraft, save, variables incl. balance()/meta(), balances 0/negative/>64 bit) executed by the real compile->bind->resolve->run "
             "pipeline; oracle = running-balance replay of the emitted postings against the overdraft the script grants (largest written bound per "
             "account/asset) + rejection class against the reference evaluator; distinct_nontrivial = distinct (script, vars, balances) that were "
             "accepted with >=1 posting",
        assumptions=["overdraft grants are read off the generated AST by the harness", "vm.StaticStore stands in for the ledger store",
                     "reference evaluator (numgen/ref.go) decides whether a shortfall exists"],
    ),
    "C03": dict(
        claim='Exploration: structural invariants (exact total, caps, floored shares with leftover to earliest, source order, no negative posting) checked on every accepted single-send program of a generator covering nested ordered/capped/portioned sources and destinations, kept, remaining, variable portions, amounts 0..>64 bit.',
        note="Trusted: the split rule and capacity computation in numgen/ref_api.go (independent of the VM). Programs whose leaves share accounts are covered by C08's differential check instead.",
        technique='runtime invariant monitor over postings of generated single-send programs',
        engine="vmmon", level="exploration",
        runs=[dict(mode="", shards={"quick": 8, "thorough": 16}, timeout=T)],
        thresholds={"quick": {"evaluations": 3000, "real_ok": 1200, "with_leftover_units": 150, "source_ran_dry_midlist": 60, "with_kept": 150, "send_all_checked": 200, "over_64bit": 20},
                    "thorough": {"evaluations": 250000, "real_ok": 100000, "with_leftover_units": 10000, "source_ran_dry_midlist": 4000, "with_kept": 10000}},
        rule="generated single-send programs (nesting depth <= 4) in which every source leaf and destination leaf uses its own account, so totals, "
             "caps, shares and source order are read directly off the postings; expected shares from the split rule (floor + leftover to earliest); "
             "distinct_nontrivial = distinct accepted cases that moved a non-zero amount",
        assumptions=["split rule and capacity computation of the harness (numgen/ref_api.go)", "vm.StaticStore stands in for the ledger store"],
    ),
    "C08": dict(
        claim='Translation validation by differential execution: each generated program is compiled+run by the repository and interpreted by an independent reference; outcome class, postings, metadata must agree; rule-breaking programs must be refused; second compilation and cached/concurrent use (race detector on) must behave like a fresh compilation.',
        note='Trusted: the reference evaluator and its normalisation (zero postings dropped, adjacent equal postings merged). One input class is a known finding (ordered destination with kept before capped entries is refused by the VM).',
        technique='differential testing against executable reference model + race detector on the compilation cache',
        engine="vmmon", level="translation_validation",
        runs=[dict(mode="", shards={"quick": 8, "thorough": 16}, timeout=T),
              dict(mode="cache", race=True, shards={"quick": 4, "thorough": 16}, timeout=T, fatal_is_violation=True)],
        race_anchor=r"internal/(machine|engine/command/compiler)|bluele/gcache",
        thresholds={"quick": {"programs": 3000, "ref_ok": 900, "rule_breaking": 300, "cached_executions": 30000, "rounds_with_evictions": 20,
                              "g_src_allotment": 50, "g_src_maxed": 50, "g_src_inorder": 50, "g_dest_inorder": 50, "g_dest_allotment": 50, "g_dest_kept": 50,
                              "g_send_all": 50, "g_var_balance": 50, "g_var_meta_account": 50, "g_portion_variable": 50, "g_stmt_save": 50, "g_stmt_set_account_meta": 50},
                    "thorough": {"programs": 350000, "ref_ok": 100000, "rule_breaking": 30000, "cached_executions": 1500000}},
        rule="differential: every generated program (whole grammar; 1/8 with exactly one static rule broken) is compiled and run by the repository "
             "and evaluated by an independent tree-walking big-int reference; outcome class, normalised postings (zero postings dropped, consecutive "
             "identical (src,dst,asset) merged), tx metadata and account metadata must agree; accepted programs are compiled and run a second time; "
             "cache mode: 16 goroutines execute a pool of look-alike texts through command.NewCompiler(n), n in {1,2,3,8,1024}, under the race "
             "detector, each result compared with a fresh compilation; distinct_nontrivial = distinct accepted (script, vars, postings)",
        assumptions=["the reference evaluator (numgen/ref.go) is the reading of the language; validated by silence on >10^6 programs after 4 VM fixes",
                     "normalisation rule (zero postings, adjacent merge)", "a program that triggers the known ordered-destination/kept refusal is singled out by the reference (Quirk)"],
    ),
    "C12": dict(
        claim='Exploration / robustness fuzzing: byte-level, token-level, grammar-level-meaningless and hostile-environment inputs; monitors: recovered panics with repo-frame signatures, hang watchdog re-confirmed in isolation, same-class-on-rerun, canary programs for leftover state.',
        note="Trusted: Go's recover() sees every panic of the calling goroutine; process-fatal errors are caught by the orchestrator (child exit + last logged case).",
        technique='fuzzing with panic/hang/determinism/canary monitors',
        engine="vmmon", level="exploration",
        runs=[dict(mode="", shards={"quick": 8, "thorough": 16}, timeout=T, fatal_is_violation=True)],
        thresholds={"quick": {"evaluations": 25000, "outcome_ok": 2000, "stage_compile": 5000, "stage_vars": 1000, "stage_resources": 300, "stage_balances": 1000, "stage_run": 4000,
                              "kind_bytes": 500, "kind_tokens": 1000, "kind_mutated": 3000, "kind_wild": 5000, "kind_vars": 1500, "kind_store": 1500, "kind_readfault": 1000, "canary_rounds": 40},
                    "thorough": {"evaluations": 2500000, "outcome_ok": 200000}},
        rule="hostile inputs to compile/bind/resolve/run: random bytes, token soup, mutated well-formed scripts, syntactically valid but meaningless "
             "programs (repeated accounts, several balance()/meta() lookups on one account, save on untouched accounts, broken portions, negative "
             "arithmetic, mismatching assets), hostile variable maps, hostile store contents, injected store read errors; oracle = no panic "
             "(recovered per case), no hang (20 s, re-confirmed 60 s solo), same class when run again, canary programs keep their outcome; "
             "distinct_nontrivial = distinct inputs that got past the parser",
        assumptions=["a process-fatal error of a child is attributed to the last logged case range"],
    ),
    "C13": dict(
        claim="Exploration: generated hash chains (all four log types x both target types, real constructors and ChainLog) are pushed through both stored forms - the JSON form (Marshal/Unmarshal/Marshal) and the store row form (the values the real InsertLogs hands to the driver, rebuilt as PostgreSQL returns them, decoded by Logs.ToCore) - and the hash is recomputed independently from the read-back content and the previous stored hash.",
        note="Trusted: PostgreSQL returns bytea unchanged, jsonb up to key order/whitespace, timestamptz at microsecond precision in UTC. Entry dates are UTC (the engine stamps ledger.Now()); invalid UTF-8 is excluded (cannot reach the log through JSON decoding, and PostgreSQL refuses it).",
        technique="round-trip monitor with independent hash recomputation over generated log chains; recording database/sql driver under the real InsertLogs",
        engine="logmon", level="exploration",
        runs=[dict(mode="", shards={"quick": 4, "thorough": 16}, timeout=T)],
        thresholds={"quick": {"evaluations": 3000, "json_roundtrips": 3000, "row_roundtrips": 3000, "kind_NEW_TRANSACTION/-": 200, "kind_REVERTED_TRANSACTION/-": 200,
                              "kind_SET_METADATA/ACCOUNT": 200, "kind_SET_METADATA/TRANSACTION": 200, "kind_DELETE_METADATA/ACCOUNT": 200, "kind_DELETE_METADATA/TRANSACTION": 200},
                    "thorough": {"evaluations": 500000, "row_roundtrips": 500000}},
        rule="chains of 1..200 entries built with the repository's constructors (random postings with >64-bit amounts, metadata nil/empty/unicode/"
             "JSON-special, references, idempotency keys, timestamps from ParseTime of RFC 3339 texts with offsets and 0-9 fractional digits, and Now()); "
             "each entry is one evaluation; distinct_nontrivial = distinct stored JSON texts",
        assumptions=["PostgreSQL column behaviour as stated in level_note", "encoding/json is the system's own encoding of the content"],
    ),
    "C15": dict(
        claim="Exploration under stress: a shadow lock table (entered after the real grant, left before the real release, so a shadow conflict is a real overlap) checks exclusivity on every grant; at quiescence no Lock call may still be pending; a clock-free probe (Lock with an already-cancelled context on all accounts) finds locks left behind; a GOMAXPROCS(1) scenario issues cancel and conflicting release back to back so the waiter wakes with both select cases ready; a third run repeats the stress under the race detector.",
        note="Trusted: the shadow table (own mutex). 'Eventually granted' is decided at quiescence with a 30 s wall-clock bound (documented exception: a pending Lock after every holder released is the violation itself; a non-quiescent time-out is INCONCLUSIVE).",
        technique="shadow-state invariant monitor + quiescence/leak probes under stress, forced cancel/grant coincidence, Go race detector",
        engine="lockmon", level="exploration",
        runs=[dict(mode="", shards={"quick": 4, "thorough": 16}, timeout=T),
              dict(mode="coincide", shards={"quick": 2, "thorough": 8}, timeout=T),
              dict(mode="race", race=True, shards={"quick": 2, "thorough": 8}, timeout=T, fatal_is_violation=True, env={"VERIF_DIV": "4"})],
        race_anchor=r"engine/command/lock\.go|collectionutils/linked_list\.go",
        thresholds={"quick": {"waits": 1000, "cancellations_of_waiting_requests": 300, "both_ready_wakeups": 2000, "leak_probes": 200, "race_detector_runs": 2},
                    "thorough": {"waits": 100000, "cancellations_of_waiting_requests": 30000, "both_ready_wakeups": 150000}},
        rule="rounds of 4-64 goroutines x 3-12 Lock/hold/Unlock operations on 2-6 accounts with random read/write sets (Commander shape: sources in both "
             "sets; duplicates), 0/20/50 % cancellable requests cancelled before / concurrently with the call; coincide mode: 1-3 waiters behind one "
             "holder, cancel+release in both orders on one P; distinct_nontrivial = distinct round configurations",
        assumptions=["shadow table correctness", "30 s is far above the time a granted waiter needs to return on this machine"],
    ),
    "C19": dict(
        claim="Exploration at the HTTP boundary: the real api.NewRouter(..., readOnly=true) serves a request corpus built from the routes chi.Walk reports (both API versions) x HTTP methods (incl. lower-case and unknown verbs) x path variants x write payloads (transactions, scripts, metadata, bulk) x method-override headers / query parameters; a monitoring backend records every call; any non-dry-run CreateTransaction / RevertTransaction / SaveMeta / DeleteMetadata is a violation. The same requests on a readOnly=false router must reach all four write methods through v1, v2 and bulk (otherwise INCONCLUSIVE). The grid routes x methods x matching bodies is enumerated completely; the rest is sampled.",
        note="Trusted: the monitoring backend (records before answering). Requests enter at chi's ServeHTTP (net/http's own request-line parsing is outside). A dry-run call reaching the backend is counted but is not a violation of the statement (nothing is created).",
        technique="HTTP-boundary monitor with recording backend, exhaustive route x method grid + randomized request compositions, control run for non-vacuity",
        engine="apimon", level="exploration",
        runs=[dict(mode="", shards={"quick": 2, "thorough": 16}, timeout=T)],
        thresholds={"quick": {"evaluations": 8000, "grid_requests": 1000, "control_writes_reached": 300, "control_reached_CreateTransaction/bulk": 1, "control_reached_DeleteMetadata/v1": 1, "control_reached_RevertTransaction/v2": 1, "control_reached_SaveMeta/bulk": 1},
                    "thorough": {"evaluations": 400000, "control_writes_reached": 15000}},
        rule="requests = registered route pattern (42 (method, pattern) pairs from chi.Walk) with path parameters filled, x method, x path variant (trailing slash, "
             "doubled slash, escaped segment, other case, dot-dot), x body, x query (dryRun, preview, force, _method ...), x headers (X-HTTP-Method-Override, "
             "Idempotency-Key, Content-Type); distinct_nontrivial = distinct requests that execute a write when the router is NOT read-only",
        assumptions=["chi.Walk reports every registered route", "monitoring backend"],
        exhaustive_counter="grid_requests", exhaustive_note="grid registered routes x 14 methods x matching bodies enumerated completely (shard 0)",
    ),
    "C18": dict(
        claim="Exploration at the HTTP boundary: generated bulks (1-12 elements over the four actions and unknown actions, per-element idempotency keys, both values of continueOnFailure) are posted to the real /v2/{ledger}/_bulk handler on a monitoring backend whose write methods succeed or fail as scripted per element (insufficient funds, conflict, already reverted, not found, internal); the recorded backend calls and the HTTP response are checked against the statement: calls = processed known-action elements in order with their own ik, one result per processed element at its position, nothing executed after the first failure unless continueOnFailure, HTTP 400 iff some processed element failed.",
        note="Trusted: the monitoring backend; each element carries its index in its payload so a backend call is attributable. Element data is well-formed (malformed payloads are outside the stated quantifier). Failure patterns are scripted, not produced by a real engine.",
        technique="HTTP-boundary monitor: recorded backend calls vs response, generated bulks with scripted per-element outcomes",
        engine="apimon", level="exploration",
        runs=[dict(mode="", shards={"quick": 2, "thorough": 16}, timeout=T)],
        thresholds={"quick": {"evaluations": 2000, "action_UNKNOWN_fail": 200, "action_CREATE_TRANSACTION_fail": 150, "action_ADD_METADATA_fail": 150, "action_REVERT_TRANSACTION_fail": 150, "action_DELETE_METADATA_fail": 150,
                              "action_CREATE_TRANSACTION_ok": 500, "action_DELETE_METADATA_ok": 500, "continue_on_failure": 500, "first_failure_at_0": 100, "first_failure_at_3": 30, "first_failure_at_5": 10},
                    "thorough": {"evaluations": 120000}},
        rule="random bulks; failure probability per element 0/10/30/60 %, unknown-action probability 0/10/30 %; distinct_nontrivial = distinct (body, continueOnFailure)",
        assumptions=["monitoring backend", "scripted failures stand in for engine failures"],
    ),
    "C17": dict(
        claim="Exploration with a small exhaustive grid: the real bunpaginate.UsingColumn / UsingOffset and the real v1/v2 list handlers (through Store.GetTransactions / GetLogs / GetAccountsWithVolumes) run on a database/sql driver that evaluates only the pagination tail (last id comparison, ORDER BY, LIMIT, OFFSET) over an in-memory relation with unique ids. Every walk goes forward until hasMore is false (must enumerate the relation exactly once, in order), then checks previous of every page, a chained backward walk from the last page and next-after-previous; every token is decoded by the real code (HTTP ?cursor=) and the statement behind each page must equal the first page's statement up to the pagination tail (filters survive). Grid sizes 0..40 x page sizes {1,2,3,5,7,15,n,n+1} x both orders x both paginators is enumerated completely.",
        note="Trusted: the driver's evaluation of < <= > >=, ORDER BY, LIMIT, OFFSET on integers (sqlmon/c17.go parseTail); the rest of each statement is an opaque relation, PostgreSQL's evaluation of the filters is not exercised.",
        technique="runtime oracle over complete cursor walks on a pagination-simulating SQL driver; exhaustive small grid + randomized sizes, id gaps, >64-bit ids, filters",
        engine="sqlmon", level="exploration",
        runs=[dict(mode="", shards={"quick": 2, "thorough": 16}, timeout=T)],
        thresholds={"quick": {"grid_walks": 900, "walks": 1400, "http_walks": 200, "http_walks_with_filter": 100, "previous_hops": 5000, "walks_with_3plus_pages": 500},
                    "thorough": {"walks": 25000, "http_walks": 10000, "http_walks_with_filter": 5000}},
        rule="walk = (level, collection size, page size, order, id style, filter); levels: bunpaginate.UsingColumn, bunpaginate.UsingOffset, HTTP v2/v1 transactions, logs, accounts with "
             "and without filter expressions; distinct_nontrivial = distinct walk descriptions that completed",
        assumptions=["simulating driver (pagination tail only)", "rows with unique integer ids"],
        exhaustive_counter="grid_walks", exhaustive_note="sizes 0..40 x page sizes {1,2,3,5,7,15,n,n+1} x {asc,desc column, offset} enumerated completely (shard 0)",
    ),
    "C20": dict(
        claim="Exploration at the driver boundary: every filter key x operator of the account, transaction, aggregated-balance and log listings (v1 query parameters and v2 query bodies, list and count) is sent through the real handlers and the real ledgerstore query builders onto a recording database/sql driver under bun+pgdialect (bun interpolates arguments client-side, so the recorded text is what PostgreSQL would parse). For a hostile value (quotes, backslashes, comment markers, ;, ?, $$, NUL, non-ASCII, jsonpath/JSON specials; alone and embedded in address shapes; also in metadata keys and asset names) the statement's token skeleton must equal the skeleton for a harmless value of the same shape and the client's text must not appear outside string-literal tokens - unless the request was refused before any statement was sent.",
        note="Trusted: the PostgreSQL lexer re-implementation (sqlmon/sqllex.go, standard_conforming_strings=on) and bun's literal quoting. Structure inside a jsonpath / JSON literal is not judged (the statement only demands quoted literal or bound parameter).",
        technique="differential SQL-skeleton monitor on a recording driver (hostile vs benign value of the same shape), generated filter requests through the real handlers",
        engine="sqlmon", level="exploration",
        runs=[dict(mode="", shards={"quick": 2, "thorough": 16}, timeout=T)],
        thresholds={"quick": {"evaluations": 6000, "statements_compared": 4000, "pairs_with_baseline_statement": 30, "rejected_before_sql": 50},
                    "thorough": {"evaluations": 300000, "statements_compared": 200000}},
        rule="case = (endpoint, key, operator, position of the hostile text: value / metadata key / asset / operator, hostile string or random composition of special characters); "
             "each case issues the benign twin first; distinct_nontrivial = distinct hostile requests that produced a statement",
        assumptions=["lexer", "bun interpolates client-side (verified: the driver receives no bound arguments for these queries)"],
    ),
    "C04": dict(
        claim="PARTIAL (Go half only). The projection itself (handle_log / insert_move / volume functions) is PL/pgSQL executed inside PostgreSQL and no PostgreSQL exists in this sandbox, so 'what is reported equals the replay of the log' cannot be observed end to end by any runtime tool here. Monitored: (1) ledger isolation of the read path - every statement that each Store read method emits (15 methods x PIT / expand flags / filter expressions, two stores sharing one bucket DB) is parsed into SELECT blocks and every reference to a ledger-scoped table must be constrained by ledger = '<this store>', tied by a *_seq equality to a table that is, or be a schema function called with the ledger literal first; the other ledger's name must never appear.",
        note="Trusted base (NOT verified): migrations/0-init-schema.sql and PostgreSQL's execution of it (volumes, effective dates, metadata revisions, reverted_at), bucket assignment. A defect confined to the SQL file is invisible to this check. The statement-structure analysis (sqlmon/c04.go) is a heuristic parser validated by removing each ledger condition in turn (6/6 detected).",
        technique="recording database/sql driver + structural oracle over every emitted read statement (ledger scoping)",
        engine="sqlmon", level="exploration",
        runs=[dict(mode="", shards={"quick": 2, "thorough": 8}, timeout=T)],
        thresholds={"quick": {"evaluations": 3000, "statements_checked": 2500, "method_GetLogs": 100, "method_GetAggregatedBalances": 100, "method_GetTransactions": 100, "method_GetAccountsWithVolumes": 100, "method_GetBalance": 100},
                    "thorough": {"evaluations": 60000}},
        rule="call = (store read method, point-in-time nil/zero/set, expandVolumes, expandEffectiveVolumes, filter expression drawn from the keys the method accepts incl. and/or/not); "
             "distinct_nontrivial = distinct (method, statement skeleton) pairs observed",
        assumptions=["PostgreSQL executes the schema's SQL as intended (not checked)", "*_seq columns are bucket-wide unique, so a seq join inherits the ledger of the joined row"],
    ),
}
