#!/bin/bash
# tools/seedtry.sh <seed-id> <engine> <PROP> [n] [extra flags] : apply seeded/<id>/patch.diff, run one shard directly, undo
id=$1; eng=$2; prop=$3; n=${4:-40}; shift 4 2>/dev/null
cd /repo && git apply /verif/seeded/$id/patch.diff || { echo "does not apply"; exit 3; }
trap 'git -C /repo checkout -- .' EXIT
cd /verif && tools/try.sh $eng $prop -n $n "$@" 2>&1 | grep -E "^evals|^[0-9]+ |^\[" | cut -c1-300
