#!/bin/bash
# tools/seedtest.sh <patch.diff> <PROP> [<PROP>...]  : apply a seeded defect to /repo, run the checks, undo.
patch=$1; shift
cd /repo || exit 3
if ! git diff --quiet; then echo "/repo has uncommitted changes"; exit 3; fi
git apply "$patch" || { echo "patch does not apply"; exit 3; }
trap 'git -C /repo checkout -- . ; git -C /repo status --short | head' EXIT
cd /verif
for p in "$@"; do
  ./check $p > .build/seedtest.$p.log 2>&1; rc=$?
  echo "== $p exit=$rc"; grep -E "^(VIOLATION|  signature|INCONCLUSIVE|KNOWN)" .build/seedtest.$p.log | cut -c1-300 | head -8
done
