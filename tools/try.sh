#!/bin/bash
# dev helper: build engine and run one shard directly: tools/try.sh vmmon C08 [extra flags]
cd /verif
eng=$1; prop=$2; shift 2
python3 - <<PY || exit 1
import sys
sys.path.insert(0,'tools')
import orchestrate
b,err=orchestrate.build('$eng',False)
print(err[-3000:])
sys.exit(0 if b else 1)
PY
mkdir -p .build/out/t
./.build/bin/$eng -prop $prop -out .build/out/t/$prop.json "$@" 2>&1 | tail -20
python3 - <<PY
import json
from collections import Counter
r=json.load(open('/verif/.build/out/t/$prop.json'))
print('evals',r['evaluations'],'viol',r['viol_count'],'distinct',len(r['distinct'] or []),'wall',round(r['wall_s'],1))
print({k:v for k,v in r['counters'].items() if not k.startswith('g_')})
c=Counter(v['signature'] for v in (r['violations'] or []))
for k,v in c.items(): print(v,k)
print((r['inconclusive'] or [])[:3])
PY
