#!/bin/bash
# run every claimed check's quick tier on the current tree; print one line per check
cd /verif
for p in $(python3 -c "
import sys; sys.path.insert(0,'tools'); from checks import CHECKS; print(' '.join(sorted(CHECKS)))"); do
  ./check $p > .build/allquick.$p.log 2>&1; rc=$?
  echo "$p rc=$rc $(grep -E '^\[C' .build/allquick.$p.log | sed 's/.*evaluations/evaluations/' | cut -c1-120)"
  grep -E "^(VIOLATION|INCONCLUSIVE)" .build/allquick.$p.log | head -3
done
