#!/bin/bash
# tools/confirm_seed.sh <id> <worktree> <subdir(. or libs)> <pkg> <run-regex> <demo file rel to worktree>...
# Confirms in the scratch worktree: builds, the existing suite result is unchanged by the patch (pass/fail list per package),
# the demo fails with the patch and passes without. Then stores everything under /verif/seeded/<id>/.
export GOFLAGS=-mod=mod GOPROXY=off GOSUMDB=off GOTOOLCHAIN=local
id=$1; wt=$2; sub=$3; pkg=$4; rx=$5; shift 5
out=/tmp/seed-out/${id%%-*}; [ -d /tmp/seed-out/$id ] && out=/tmp/seed-out/$id
cd $wt || exit 3
suite() { (cd $wt && go test -vet=off -count=1 ./... 2>&1 | grep -E "^(ok|FAIL|---)" | sed -E 's/[0-9.]+s$//;s/ \([0-9.]+s\)$//' | sort); (cd $wt/libs && go test -vet=off -count=1 ./... 2>&1 | grep -E "^(ok|FAIL|---)" | sed -E 's/[0-9.]+s$//;s/\(cached\)//;s/ \([0-9.]+s\)$//' | sort); }
go build ./... || { echo BUILD-FAIL; exit 1; }
# move demo files aside for the suite comparison
mkdir -p /tmp/seed-demo-$id; for f in "$@"; do mkdir -p /tmp/seed-demo-$id/$(dirname $f); mv $wt/$f /tmp/seed-demo-$id/$f; done
suite > /tmp/seed-demo-$id/suite.with.txt
git apply -R $out/patch.diff || { echo "cannot reverse patch"; exit 1; }
suite > /tmp/seed-demo-$id/suite.without.txt
if diff -q /tmp/seed-demo-$id/suite.with.txt /tmp/seed-demo-$id/suite.without.txt >/dev/null; then echo "suite identical with/without patch: $(grep -c '^ok' /tmp/seed-demo-$id/suite.with.txt) ok pkgs, $(grep -c '^FAIL' /tmp/seed-demo-$id/suite.with.txt) FAIL pkgs (pre-existing)"; else echo "SUITE DIFFERS"; diff /tmp/seed-demo-$id/suite.with.txt /tmp/seed-demo-$id/suite.without.txt | head; fi
for f in "$@"; do mkdir -p $wt/$(dirname $f); cp /tmp/seed-demo-$id/$f $wt/$f; done
(cd $wt/$sub && go test -vet=off -count=1 -run "$rx" $pkg > /tmp/seed-demo-$id/demo.without.txt 2>&1); rc0=$?
git apply $out/patch.diff
(cd $wt/$sub && go test -vet=off -count=1 -run "$rx" $pkg > /tmp/seed-demo-$id/demo.with.txt 2>&1); rc1=$?
echo "demo without patch rc=$rc0 (want 0); with patch rc=$rc1 (want !=0)"
if [ $rc0 -eq 0 ] && [ $rc1 -ne 0 ]; then
  d=/verif/seeded/$id; mkdir -p $d/demo
  cp $out/patch.diff $d/patch.diff
  for f in "$@"; do mkdir -p $d/demo/$(dirname $f); cp $wt/$f $d/demo/$f; done
  cp $out/NOTES.md $d/NOTES.md 2>/dev/null; cp $out/DEMO.md $d/DEMO.md 2>/dev/null
  tail -15 /tmp/seed-demo-$id/demo.with.txt > $d/demo.with_patch.txt; tail -5 /tmp/seed-demo-$id/demo.without.txt > $d/demo.without_patch.txt
  echo CONFIRMED $id
else echo NOT-CONFIRMED $id; fi
