#!/bin/bash
# tools/unfixtest.sh <unfix-name> <engine> <PROP> [n]   : apply seeded/_unfix/<name>.diff, run one shard directly, undo
name=$1; eng=$2; prop=$3; n=${4:-30}
cd /repo && git apply /verif/seeded/_unfix/$name.diff || { echo "does not apply"; exit 3; }
trap 'git -C /repo checkout -- .' EXIT
cd /verif && tools/try.sh $eng $prop -n $n 2>&1 | grep -E "^evals|^[0-9]+ |^\[" | cut -c1-300
