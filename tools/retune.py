#!/usr/bin/env python3
"""tools/retune.py <PID>... : run the quick check, then set each existing quick threshold to 60 % of the observed value (25 % for counters fed by timing-dependent runs)
(never below the old one unless the observation is lower). Edits tools/checks.py in place (thresholds only)."""
import sys, json, subprocess, re, os
sys.path.insert(0, '/verif/tools')
import importlib
for pid in sys.argv[1:]:
    import checks; importlib.reload(checks)
    spec = checks.CHECKS[pid]
    p = subprocess.run(['./check', pid], cwd='/verif', stdout=subprocess.PIPE, stderr=subprocess.STDOUT, text=True)
    ev = json.load(open('/verif/evidence/%s.json' % pid))
    obs = dict(ev['coverage']['counters']); obs['evaluations'] = ev['coverage']['evaluations']
    old = spec['thresholds']['quick']
    new = {}
    for k, v in old.items():
        o = obs.get(k, 0)
        if k.startswith('control_reached') or k in ('race_detector_runs', 'pairs_with_baseline_statement', 'grid_walks', 'grid_requests', 'max_batch_size') or k.startswith('g_'):
            new[k] = min(v, o) if o else v
        elif k.startswith(('overlapping_', 'req_err_', 'req_ok_', 'open_requests', 'events_published', 'waits', 'cancellations_', 'both_ready', 'fanout_', 'dry_runs', 'batches_of', 'death_with_task', 'unforced_reverts', 'ik_retries')):
            new[k] = max(1, int(o * 0.25))  # counters fed by free-running (timing-dependent) runs: a wide margin
        else:
            new[k] = max(1, int(o * 0.6))
    src = open('/verif/tools/checks.py').read()
    i = src.index('"%s": dict(' % pid)
    j = src.index('thresholds={"quick": ', i)
    k = src.index('}', j) + 1
    src = src[:j] + 'thresholds={"quick": ' + repr(new).replace("'", '"') + src[k:]
    open('/verif/tools/checks.py', 'w').write(src)
    print(pid, 'exit', p.returncode, 'wall', ev['wall_s'], new)
