#!/bin/bash
# Runs the repository's own suite (guard OFF) and compares the set of passing tests with /root/.vp/BASELINE.json.
export GOFLAGS=-mod=mod GOPROXY=off GOSUMDB=off GOTOOLCHAIN=local
REPO=${1:-/repo}
out=$(mktemp)
(cd $REPO && go test -json -vet=off -count=1 -timeout 25m ./... ; cd $REPO/libs && go test -json -vet=off -count=1 -timeout 25m ./...) > $out 2>/dev/null
python3 - $out <<'PY'
import json,sys
passed=set(); failed=set()
for l in open(sys.argv[1]):
    try: e=json.loads(l)
    except Exception: continue
    if e.get('Test') and e.get('Action') in('pass','fail'):
        (passed if e['Action']=='pass' else failed).add(e['Package']+'::'+e['Test'])
b=set(json.load(open('/root/.vp/BASELINE.json'))['stable_pass'])
print('passed',len(passed),'failed',len(failed),'baseline',len(b),'missing from pass:',len(b-passed))
for x in sorted(b-passed)[:20]: print('  MISSING',x)
PY
rm -f $out
