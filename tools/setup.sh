#!/bin/bash
# Run once after a fresh restore, offline: warms the Go build cache for the engines (checks rebuild anyway).
set -u
cd "$(dirname "$0")/.."
export GOFLAGS=-mod=mod GOPROXY=off GOSUMDB=off GOTOOLCHAIN=local
mkdir -p .build/bin evidence replays
python3 - <<'PY'
import sys, os
sys.path.insert(0, "tools")
import orchestrate
from checks import CHECKS
done = set()
for pid, spec in CHECKS.items():
    for run in spec["runs"]:
        key = (run.get("engine", spec["engine"]), bool(run.get("race")))
        if key in done:
            continue
        done.add(key)
        b, err = orchestrate.build(key[0], key[1], spec.get("requires"))
        if b is None:
            print("setup: build failed for", key); print(err[-3000:]); sys.exit(1)
print("setup ok:", sorted(done))
PY
