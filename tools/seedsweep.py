#!/usr/bin/env python3
"""Run every seeded defect (seeded/<id>/patch.diff) against its checks and record the outcome in seeded/<id>/meta.json.
Works on a scratch git worktree of /repo (so /repo itself stays untouched and usable), removed afterwards.
usage: tools/seedsweep.py [id ...]"""
import json, os, subprocess, sys, glob, re, shutil
V = "/verif"
WT = "/tmp/sweep-repo-%d" % os.getpid()
ids = sys.argv[1:] or sorted(os.path.basename(d) for d in glob.glob(V + "/seeded/*") if os.path.exists(d + "/meta.json"))
subprocess.run(["git", "-C", "/repo", "worktree", "add", "-q", "--detach", WT, "HEAD"], check=True)
env = dict(os.environ, VERIF_REPO=WT, VERIF_BUILD="/tmp/sweep-build-%d" % os.getpid(), VERIF_EVIDENCE_DIR="/tmp/sweep-build-%d/evidence" % os.getpid(), VERIF_REPLAY_DIR="/tmp/sweep-build-%d/replays" % os.getpid())
head = subprocess.run(["git", "-C", "/repo", "rev-parse", "--short", "HEAD"], stdout=subprocess.PIPE, text=True).stdout.strip()
try:
    for sid in ids:
        d = os.path.join(V, "seeded", sid)
        meta = json.load(open(d + "/meta.json"))
        subprocess.run(["git", "-C", WT, "checkout", "-q", "--", "."])
        if subprocess.run(["git", "-C", WT, "apply", d + "/patch.diff"]).returncode != 0:
            print(sid, "PATCH DOES NOT APPLY"); meta["results"] = {"error": "patch does not apply to /repo HEAD " + head}; json.dump(meta, open(d + "/meta.json", "w"), indent=1); continue
        res = {}
        for pid in meta["checks"]:
            p = subprocess.run(["./check", pid], cwd=V, env=env, stdout=subprocess.PIPE, stderr=subprocess.STDOUT, text=True)
            sigs = re.findall(r"^  signature: (.*)$", p.stdout, re.M)
            inc = re.findall(r"^INCONCLUSIVE.*reason=(.*)$", p.stdout, re.M)
            res[pid] = {"exit": p.returncode, "violation_signatures": sigs[:8]}
            if inc:
                res[pid]["inconclusive"] = inc[:3]
            print(sid, pid, "exit", p.returncode, sigs[:3], flush=True)
        meta["results"] = res
        meta["detected"] = any(r["exit"] == 1 for r in res.values())
        meta["detected_by"] = [p for p, r in res.items() if r["exit"] == 1]
        meta["ran"] = "git apply seeded/%s/patch.diff (on a scratch worktree of /repo HEAD %s); " % (sid, head) + "; ".join("./check %s" % p for p in meta["checks"]) + "; patch undone"
        meta["repo_head"] = head
        json.dump(meta, open(d + "/meta.json", "w"), indent=1)
finally:
    subprocess.run(["git", "-C", "/repo", "worktree", "remove", "--force", WT])
    shutil.rmtree(env["VERIF_BUILD"], ignore_errors=True)
