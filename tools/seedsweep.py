#!/usr/bin/env python3
"""Run every seeded defect (seeded/<id>/patch.diff) against its checks and record the outcome in seeded/<id>/meta.json.
usage: tools/seedsweep.py [id ...]"""
import json, os, subprocess, sys, glob, re
V = "/verif"
ids = sys.argv[1:] or sorted(os.path.basename(d) for d in glob.glob(V + "/seeded/*") if os.path.exists(d + "/meta.json"))
for sid in ids:
    d = os.path.join(V, "seeded", sid)
    meta = json.load(open(d + "/meta.json"))
    if subprocess.run(["git", "-C", "/repo", "diff", "--quiet"]).returncode != 0:
        print("/repo dirty"); sys.exit(3)
    if subprocess.run(["git", "-C", "/repo", "apply", d + "/patch.diff"]).returncode != 0:
        print(sid, "PATCH DOES NOT APPLY"); meta["results"] = {"error": "patch does not apply to current /repo HEAD"}; json.dump(meta, open(d + "/meta.json", "w"), indent=1); continue
    res = {}
    try:
        for pid in meta["checks"]:
            p = subprocess.run(["./check", pid], cwd=V, stdout=subprocess.PIPE, stderr=subprocess.STDOUT, text=True)
            sigs = re.findall(r"^  signature: (.*)$", p.stdout, re.M)
            res[pid] = {"exit": p.returncode, "violation_signatures": sigs[:8]}
            print(sid, pid, "exit", p.returncode, sigs[:3])
    finally:
        subprocess.run(["git", "-C", "/repo", "checkout", "--", "."])
    meta["results"] = res
    meta["detected"] = any(r["exit"] == 1 for r in res.values())
    meta["ran"] = "git -C /repo apply seeded/%s/patch.diff; " % sid + "; ".join("./check %s" % p for p in meta["checks"]) + "; git -C /repo checkout -- ."
    meta["repo_head"] = subprocess.run(["git", "-C", "/repo", "rev-parse", "--short", "HEAD"], stdout=subprocess.PIPE, text=True).stdout.strip()
    json.dump(meta, open(d + "/meta.json", "w"), indent=1)
