// Package vcommon: PRNG, run configuration, report (evidence / violations) shared by all monitors.
package vcommon

import (
	"encoding/json"
	"flag"
	"fmt"
	"hash/fnv"
	"os"
	"runtime/debug"
	"sort"
	"sync"
	"time"
)

// ---------------------------------------------------------------------------------------------
// PRNG: splitmix64. Every case list is a fixed function of (seed, tier, shard).

type Rand struct{ s uint64 }

func NewRand(seed uint64) *Rand { return &Rand{s: seed*0x9E3779B97F4A7C15 + 0x1234567} }

func (r *Rand) Uint64() uint64 {
	r.s += 0x9E3779B97F4A7C15
	z := r.s
	z = (z ^ (z >> 30)) * 0xBF58476D1CE4E5B9
	z = (z ^ (z >> 27)) * 0x94D049BB133111EB
	return z ^ (z >> 31)
}

// Fork derives an independent stream (so that adding draws in one place does not shift others).
func (r *Rand) Fork() *Rand { return &Rand{s: r.Uint64()} }

func (r *Rand) Intn(n int) int {
	if n <= 0 {
		return 0
	}
	return int(r.Uint64() % uint64(n))
}
func (r *Rand) Range(lo, hi int) int { return lo + r.Intn(hi-lo+1) } // inclusive
func (r *Rand) Bool() bool           { return r.Uint64()&1 == 1 }
func (r *Rand) Chance(num, den int) bool {
	return r.Intn(den) < num
}
func Pick[T any](r *Rand, xs []T) T { return xs[r.Intn(len(xs))] }

// Weighted returns an index chosen with the given weights.
func (r *Rand) Weighted(w ...int) int {
	t := 0
	for _, x := range w {
		t += x
	}
	k := r.Intn(t)
	for i, x := range w {
		if k < x {
			return i
		}
		k -= x
	}
	return len(w) - 1
}

func (r *Rand) Shuffle(n int, swap func(i, j int)) {
	for i := n - 1; i > 0; i-- {
		j := r.Intn(i + 1)
		swap(i, j)
	}
}

// ---------------------------------------------------------------------------------------------

func Hash64(parts ...string) uint64 {
	h := fnv.New64a()
	for _, p := range parts {
		h.Write([]byte(p))
		h.Write([]byte{0})
	}
	return h.Sum64()
}

// ---------------------------------------------------------------------------------------------
// Config / Report

type Config struct {
	Prop    string
	Tier    string
	Seed    uint64
	Shard   int
	NShards int
	Out     string
	Replay  string
	Mode    string // engine-specific sub mode ("", "race", ...)
	N       int    // case count override (0 = tier default)
	Only    int    // run only this case index (-1 = all); used by replay
}

func ParseFlags() *Config {
	c := &Config{}
	flag.StringVar(&c.Prop, "prop", "", "property id")
	flag.StringVar(&c.Tier, "tier", "quick", "quick|thorough")
	flag.Uint64Var(&c.Seed, "seed", 1, "seed")
	flag.IntVar(&c.Shard, "shard", 0, "shard index")
	flag.IntVar(&c.NShards, "nshards", 1, "number of shards")
	flag.StringVar(&c.Out, "out", "", "report file")
	flag.StringVar(&c.Replay, "replay", "", "replay file")
	flag.StringVar(&c.Mode, "mode", "", "sub mode")
	flag.IntVar(&c.N, "n", 0, "case count override for this shard")
	flag.IntVar(&c.Only, "only", -1, "run only this case index")
	flag.Parse()
	if c.Out == "" {
		fmt.Fprintln(os.Stderr, "missing -out")
		os.Exit(3)
	}
	return c
}

// ShardRand: stream for this (seed, prop, shard, mode).
func (c *Config) ShardRand() *Rand {
	return NewRand(c.Seed ^ Hash64(c.Prop, c.Mode, fmt.Sprint(c.Shard)))
}

// CaseRand: independent stream for case i of this shard, so a single case can be regenerated (replay).
func (c *Config) CaseRand(i int) *Rand {
	return NewRand(c.Seed ^ Hash64(c.Prop, c.Mode, fmt.Sprint(c.Shard), fmt.Sprint(i)))
}

// Cases iterates the case indices of this shard (or the single -only index).
func (c *Config) Cases(quick, thorough int, f func(i int, r *Rand)) {
	if c.Only >= 0 {
		f(c.Only, c.CaseRand(c.Only))
		return
	}
	n := c.Count(quick, thorough)
	for i := 0; i < n; i++ {
		f(i, c.CaseRand(i))
	}
}

// Count splits a tier-level total over shards.
func (c *Config) Count(quick, thorough int) int {
	if c.N > 0 {
		return c.N
	}
	t := quick
	if c.Tier == "thorough" {
		t = thorough
	}
	n := t / c.NShards
	if c.Shard < t%c.NShards {
		n++
	}
	return n
}

type Violation struct {
	Signature string `json:"signature"`
	What      string `json:"what"`
	Index     int    `json:"index"`
	Case      any    `json:"case,omitempty"`
}

type Report struct {
	mu           sync.Mutex
	Prop         string           `json:"prop"`
	Mode         string           `json:"mode"`
	Shard        int              `json:"shard"`
	Evaluations  int64            `json:"evaluations"`
	Counters     map[string]int64 `json:"counters"`
	Distinct     []string         `json:"distinct"` // hex hashes of distinct non-trivial cases
	distinct     map[uint64]struct{}
	Samples      []any       `json:"samples"`
	Violations   []Violation `json:"violations"`
	ViolCount    int64       `json:"viol_count"`
	Inconclusive []string    `json:"inconclusive"`
	Done         bool        `json:"done"`
	WallS        float64     `json:"wall_s"`
	out          string
	start        time.Time
	maxSamples   int
}

func NewReport(c *Config) *Report {
	return &Report{Prop: c.Prop, Mode: c.Mode, Shard: c.Shard, Counters: map[string]int64{}, distinct: map[uint64]struct{}{},
		out: c.Out, start: time.Now(), maxSamples: 4}
}

func (r *Report) Eval() { r.mu.Lock(); r.Evaluations++; r.mu.Unlock() }
func (r *Report) Inc(k string) {
	r.mu.Lock()
	r.Counters[k]++
	r.mu.Unlock()
}
func (r *Report) Add(k string, n int64) {
	r.mu.Lock()
	r.Counters[k] += n
	r.mu.Unlock()
}
func (r *Report) Max(k string, n int64) {
	r.mu.Lock()
	if r.Counters[k] < n {
		r.Counters[k] = n
	}
	r.mu.Unlock()
}
func (r *Report) DistinctCase(h uint64) {
	r.mu.Lock()
	r.distinct[h] = struct{}{}
	r.mu.Unlock()
}
func (r *Report) Sample(s any) {
	r.mu.Lock()
	if len(r.Samples) < r.maxSamples {
		r.Samples = append(r.Samples, s)
	}
	r.mu.Unlock()
}
func (r *Report) WantSample() bool {
	r.mu.Lock()
	defer r.mu.Unlock()
	return len(r.Samples) < r.maxSamples
}
func (r *Report) Violate(sig, what string, idx int, cs any) {
	r.mu.Lock()
	r.ViolCount++
	// keep at most 3 witnesses per signature, 60 overall
	n := 0
	for _, v := range r.Violations {
		if v.Signature == sig {
			n++
		}
	}
	if n < 3 && len(r.Violations) < 60 {
		r.Violations = append(r.Violations, Violation{Signature: sig, What: what, Index: idx, Case: cs})
	}
	r.mu.Unlock()
}
func (r *Report) Inconc(why string) {
	r.mu.Lock()
	if len(r.Inconclusive) < 20 {
		r.Inconclusive = append(r.Inconclusive, why)
	}
	r.mu.Unlock()
}

// Current records the case about to run (survives a process-fatal error).
func (r *Report) Current(cs any) {
	b, _ := json.Marshal(cs)
	_ = os.WriteFile(r.out+".current", b, 0o644)
}

func (r *Report) Write(done bool) {
	r.mu.Lock()
	defer r.mu.Unlock()
	r.Done = done
	r.WallS = time.Since(r.start).Seconds()
	r.Distinct = r.Distinct[:0]
	for h := range r.distinct {
		r.Distinct = append(r.Distinct, fmt.Sprintf("%016x", h))
	}
	sort.Strings(r.Distinct)
	b, err := json.Marshal(r)
	if err != nil {
		fmt.Fprintln(os.Stderr, "report marshal:", err)
		os.Exit(3)
	}
	if err := os.WriteFile(r.out, b, 0o644); err != nil {
		fmt.Fprintln(os.Stderr, "report write:", err)
		os.Exit(3)
	}
	if done {
		_ = os.Remove(r.out + ".current")
	}
}

// Guard runs f, turning a panic into (value, stack).
func Guard(f func()) (pv any, stack string) {
	defer func() {
		if e := recover(); e != nil {
			pv = e
			stack = string(debug.Stack())
		}
	}()
	f()
	return nil, ""
}

func MustJSON(v any) string {
	b, err := json.Marshal(v)
	if err != nil {
		return fmt.Sprintf("<<json error %v>>", err)
	}
	return string(b)
}
