// enginemon: monitors over command.Commander on a monitoring store (C02 C05 C06 C07 C09 C10 C11 C14 C16).
package main

import (
	"fmt"
	"io"
	"os"
	"strings"

	vc "github.com/formancehq/ledger/internal/verif/vcommon"
	"github.com/sirupsen/logrus"
)

func main() {
	logrus.SetOutput(io.Discard)
	cfg := vc.ParseFlags()
	rep := vc.NewReport(cfg)
	switch cfg.Prop {
	case "C05":
		runProp(cfg, rep, genChainScenario, checkChain, 300, 6000, 6, 12)
	case "C02":
		runProp(cfg, rep, genContention, checkNoDoubleSpend, 400, 6000, 6, 12)
	case "C07":
		runProp(cfg, rep, genIdempotency, checkIdempotency, 300, 5000, 6, 12)
	case "C11":
		runProp(cfg, rep, genReferences, checkReferences, 300, 5000, 6, 12)
	case "C10":
		if cfg.Mode == "inmemory" {
			runC10InMemory(cfg, rep)
			break
		}
		runProp(cfg, rep, genReverts, func(o *Observed) []Finding {
			fs := checkReverts(o)
			for _, f := range checkNoDoubleSpend(o) {
				if strings.Contains(f.Rule, "designated-by-revert") {
					fs = append(fs, Finding{"unforced-revert-overdraws", f.What})
				}
			}
			return fs
		}, 300, 5000, 6, 12)
	case "C09":
		runProp(cfg, rep, genPostingMode, checkPostingMode, 500, 20000, 2, 4)
	case "C16":
		runProp(cfg, rep, genWritesForEvents, checkEvents, 300, 5000, 4, 8)
	case "C06":
		runC06(cfg, rep)
	case "C04":
		runC04InMemory(cfg, rep)
	case "C14":
		if cfg.Mode == "concurrent" {
			runC14Concurrent(cfg, rep)
		} else {
			runC14(cfg, rep)
		}
	default:
		fmt.Fprintln(os.Stderr, "enginemon: unknown property", cfg.Prop)
		os.Exit(3)
	}
	rep.Write(true)
}

// runProp: generic driver: nScen scenarios x nSched schedules (controlled mode) or free-running repetitions (race mode).
func runProp(cfg *vc.Config, rep *vc.Report, gen func(*vc.Rand) *Scenario, oracle func(*Observed) []Finding, quick, thorough, schedQ, schedT int) {
	nSched := schedQ
	if cfg.Tier == "thorough" {
		nSched = schedT
	}
	if cfg.Shard == 0 && cfg.Only < 0 && (cfg.Prop == "C05" || cfg.Prop == "C16") {
		// the batch boundary: > 4096 writes queued behind a held first batch
		run, max := runBigBatch(4400)
		rep.Max("max_batch_size", int64(max))
		sc := &Scenario{Kind: "big-batch"}
		account(rep, cfg, -2, 0, sc, run, oracle(run.Obs))
		rep.Inc("batch_boundary_scenarios")
	}
	if cfg.Mode == "burst" {
		kind := map[string]string{"C07": "ik", "C11": "reference"}[cfg.Prop]
		rounds := cfg.Count(4000, 100000)
		run := runBurst(rounds, 8, kind)
		rep.Add("burst_rounds", int64(rounds))
		account(rep, cfg, -3, 0, &Scenario{Kind: "burst-" + kind}, run, oracle(run.Obs))
		return
	}
	if cfg.Mode == "failstorm" {
		// the store refuses the k-th batch while free-running writers keep the job runner busy
		cfg.Cases(400, 20000, func(i int, r *vc.Rand) {
			run := runFailStorm(r.Fork())
			rep.Inc("failstorm_rounds")
			account(rep, cfg, i, 0, &Scenario{Kind: "failstorm"}, run, oracle(run.Obs))
		})
		return
	}
	cfg.Cases(quick, thorough, func(i int, r *vc.Rand) {
		sc := gen(r.Fork())
		for k := 0; k < nSched; k++ {
			seed := r.Uint64()
			rep.Current(map[string]any{"index": i, "schedule": k, "scenario": planJSON(sc)})
			var run *ScenarioRun
			if cfg.Mode == "race" {
				run = runFree(sc, seed)
			} else {
				run = runControlled(sc, seed)
			}
			account(rep, cfg, i, k, sc, run, oracle(run.Obs))
			if run.Stalled != "" {
				break
			}
		}
	})
}

var stalls int

// account: counters, evidence, violations of one scenario run.
func account(rep *vc.Report, cfg *vc.Config, i, k int, sc *Scenario, run *ScenarioRun, fs []Finding) {
	rep.Eval()
	rep.Inc("schedules")
	o := run.Obs
	if run.Stalled != "" {
		// what was observed up to the stall is still judged (the oracles are safety properties over the recorded history)
		if o != nil {
			seen := map[string]bool{}
			for _, f := range fs {
				if !seen[f.Rule] {
					seen[f.Rule] = true
					rep.Violate(f.Rule, f.What, i, map[string]any{"index": i, "schedule": k, "scenario": planJSON(sc), "log_ids": logIDs(o), "stalled": run.Stalled})
				}
			}
		}
		rep.Inconc(fmt.Sprintf("scenario %d schedule %d: %s", i, k, run.Stalled))
		rep.Inc("stalled")
		stalls++
		if stalls >= 3 {
			// requests that never come back: every further scenario would cost another watchdog period
			rep.Inconc("3 scenarios stalled (requests never answered / no task can run): shard abandoned")
			rep.Write(true)
			os.Exit(0)
		}
		return
	}
	if run.InitErr != "" {
		rep.Violate("init-after-restart-failed", run.InitErr, i, planJSON(sc))
	}
	var sig []string
	for _, s := range run.Scheds {
		sig = append(sig, fmt.Sprint(s.Signature()))
		for p, n := range s.Overtake {
			rep.Add("overtaken_at_"+p, int64(n))
		}
		if s.Died {
			rep.Inc("deaths")
			for _, w := range strings.Split(s.DiedAt, ",") {
				if j := strings.Index(w, "@"); j >= 0 {
					rep.Inc("death_with_task_at_" + w[j+1:])
				}
			}
		}
	}
	rep.DistinctCase(vc.Hash64(append(sig, fmt.Sprint(i))...))
	rep.Add("requests", int64(len(o.Recs)))
	rep.Add("logs_persisted", int64(len(o.Logs)))
	open := 0
	for _, r := range o.Recs {
		if r.Res == nil {
			open++
		} else if r.Res.OK {
			rep.Inc("req_ok_" + r.Op.Kind)
			if r.Op.Kind == "postings" {
				amts := map[string]string{}
				for _, p := range r.Op.Postings {
					if p.Amount == "0" && p.Source != "world" {
						rep.Inc("accepted_postings_with_zero_amount_from_account")
					}
					if as, ok := amts[p.Amount]; ok && as != p.Asset {
						rep.Inc("accepted_postings_same_amount_two_assets")
					}
					amts[p.Amount] = p.Asset
					if p.Source == p.Destination {
						rep.Inc("accepted_postings_self_transfer")
					}
				}
			}
		} else {
			rep.Inc("req_err_" + r.Res.Class)
			if r.Res.Class == "other" || strings.HasPrefix(r.Res.Class, "http-") {
				rep.Inc("other_error: " + firstLine(r.Res.Err))
			}
		}
	}
	rep.Add("open_requests", int64(open))
	for _, b := range o.Batches {
		if b.N >= 3 {
			rep.Inc("batches_of_3_or_more")
		}
		if b.N >= 2 {
			rep.Inc("batches_of_2_or_more")
		}
	}
	// concurrency actually observed at the client boundary
	for a := 0; a < len(o.Recs); a++ {
		for b := a + 1; b < len(o.Recs); b++ {
			x, y := o.Recs[a], o.Recs[b]
			if x.Gen != y.Gen || x.Client == y.Client {
				continue
			}
			xe, ye := x.RetStep, y.RetStep
			if xe < 0 {
				xe = 1 << 60
			}
			if ye < 0 {
				ye = 1 << 60
			}
			if x.CallStep < ye && y.CallStep < xe {
				rep.Inc("overlapping_request_pairs")
				if x.Op.IK != "" && x.Op.IK == y.Op.IK {
					rep.Inc("overlapping_same_ik")
				}
				if x.Op.Reference != "" && x.Op.Reference == y.Op.Reference {
					rep.Inc("overlapping_same_reference")
				}
				if x.Op.Kind == "revert" && y.Op.Kind == "revert" && x.Op.TxID == y.Op.TxID {
					rep.Inc("overlapping_same_revert_target")
				}
			}
		}
	}
	for _, r := range o.Recs {
		if r.Op.Kind == "revert" && r.Res != nil && !r.Res.OK && r.Res.Class == "insufficient" {
			rep.Inc("unforced_reverts_refused")
		}
		if r.Op.IK != "" && r.Gen > 2 {
			rep.Inc("ik_retries_after_restart")
		}
		if r.Op.DryRun {
			rep.Inc("dry_runs")
		}
	}
	rep.Add("events_published", int64(len(o.Msgs)))
	// restarts on a non-empty store
	for g := 1; g < len(run.Scheds); g++ {
		rep.Inc("restarts")
	}
	seen := map[string]bool{}
	for _, f := range fs {
		if seen[f.Rule] {
			continue
		}
		seen[f.Rule] = true
		rep.Violate(f.Rule, f.What, i, map[string]any{"index": i, "schedule": k, "scenario": planJSON(sc), "history": o.Recs, "log_ids": logIDs(o), "trace": traces(run)})
	}
	if len(fs) == 0 && rep.WantSample() && len(o.Logs) > 3 {
		rep.Sample(map[string]any{"scenario": planJSON(sc), "trace": traces(run), "log_ids": logIDs(o)})
	}
}

func logIDs(o *Observed) []string {
	var out []string
	for i, l := range o.Logs {
		s := l.ID.String() + ":" + l.Type.String()
		if t := logTx(l); t != nil {
			s += ":tx" + t.ID.String()
		}
		_ = i
		out = append(out, s)
	}
	return out
}

func traces(run *ScenarioRun) [][]string {
	var out [][]string
	for _, s := range run.Scheds {
		t := s.Trace
		if len(t) > 200 {
			t = t[:200]
		}
		out = append(out, t)
	}
	return out
}

// runC06: fault enumeration. For each scenario and schedule seed, first a death-free run (S scheduler decisions, B
// InsertLogs calls), then one run per death point k in 0..S-1 and one per failing InsertLogs call j in 1..B, each followed
// by a fresh generation that issues more writes.
func runC06(cfg *vc.Config, rep *vc.Report) {
	if cfg.Shard == 0 && cfg.Only < 0 {
		run, max := runBigBatch(4400)
		rep.Max("max_batch_size", int64(max))
		account(rep, cfg, -2, 0, &Scenario{Kind: "big-batch"}, run, checkAckPersist(run.Obs))
		rep.Inc("batch_boundary_scenarios")
	}
	if cfg.Mode == "closestorm" {
		cfg.Cases(300, 10000, func(i int, r *vc.Rand) {
			run := runCloseStorm(r.Fork())
			rep.Inc("closestorm_rounds")
			account(rep, cfg, i, 0, &Scenario{Kind: "closestorm"}, run, checkAckPersist(run.Obs))
		})
		return
	}
	if cfg.Mode == "failstorm" {
		// store failures while many writers keep the runner busy (free-running): whatever is acknowledged must be persisted
		cfg.Cases(400, 20000, func(i int, r *vc.Rand) {
			run := runFailStorm(r.Fork())
			rep.Inc("failstorm_rounds")
			account(rep, cfg, i, 0, &Scenario{Kind: "failstorm"}, run, checkAckPersist(run.Obs))
		})
		return
	}
	cfg.Cases(40, 1200, func(i int, r *vc.Rand) {
		sc := genWrites(r.Fork())
		seed := r.Uint64()
		rep.Current(map[string]any{"index": i, "scenario": planJSON(sc)})
		if cfg.Mode == "race" {
			for k := 0; k < 6; k++ {
				run := runFree(sc, seed+uint64(k))
				account(rep, cfg, i, k, sc, run, checkAckPersist(run.Obs))
			}
			return
		}
		base := runControlled(sc, seed)
		account(rep, cfg, i, -1, sc, base, checkAckPersist(base.Obs))
		if base.Stalled != "" {
			return
		}
		S := base.Decisions[len(base.Decisions)-1]
		B := 0
		for _, b := range base.Obs.Batches {
			if b.Gen == len(sc.Phases) {
				B++
			}
		}
		g := &opGen{r: r.Fork(), n: 1000}
		after := Phase{Clients: []ClientPlan{{Name: "after", Ops: []Op{g.fund("alice", 5), g.saveMetaAcc("bob", nil)}}}, DieAt: -1}
		for k := 0; k < S; k++ {
			v := *sc
			v.Phases = append(append([]Phase{}, sc.Phases...), after)
			last := len(sc.Phases) - 1
			ph := v.Phases[last]
			ph.DieAt = k
			v.Phases[last] = ph
			run := runControlled(&v, seed)
			rep.Inc("death_points_enumerated")
			account(rep, cfg, i, k, &v, run, checkAckPersist(run.Obs))
		}
		for j := 1; j <= B; j++ {
			v := *sc
			v.Phases = append(append([]Phase{}, sc.Phases...), after)
			last := len(sc.Phases) - 1
			ph := v.Phases[last]
			ph.FailInsert = j
			v.Phases[last] = ph
			run := runControlled(&v, seed)
			rep.Inc("store_failures_enumerated")
			for _, b := range run.Obs.Batches {
				if b.Fails && b.N >= 2 {
					rep.Inc("failed_batches_of_2_or_more")
				}
			}
			account(rep, cfg, i, 1000+j, &v, run, checkAckPersist(run.Obs))
		}
	})
}
