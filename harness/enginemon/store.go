package main

import (
	"context"
	"errors"
	"fmt"
	"math/big"
	"sync"
	"sync/atomic"

	ledger "github.com/formancehq/ledger/internal"
	"github.com/formancehq/ledger/internal/storage/sqlutils"
	"github.com/formancehq/stack/libs/go-libs/metadata"
)

// ------------------------------------------------------------------------------------------------ fold
// Projection: a plain fold of a log sequence (the reference replay used by the oracles and by MonStore's reads).

type txRec struct {
	Tx       ledger.Transaction // deep copy, metadata = current metadata
	Reverted bool
	LogIdx   int
}

type Projection struct {
	Bal     map[string]map[string]*big.Int
	Txs     map[string]*txRec // by id
	TxOrder []string
	ByRef   map[string][]string
	AccMeta map[string]metadata.Metadata
	ByIK    map[string][]int
}

func NewProjection() *Projection {
	return &Projection{Bal: map[string]map[string]*big.Int{}, Txs: map[string]*txRec{}, ByRef: map[string][]string{}, AccMeta: map[string]metadata.Metadata{}, ByIK: map[string][]int{}}
}

func (p *Projection) Balance(acc, asset string) *big.Int {
	if m, ok := p.Bal[acc]; ok && m[asset] != nil {
		return new(big.Int).Set(m[asset])
	}
	return new(big.Int)
}

func (p *Projection) add(acc, asset string, d *big.Int) {
	if p.Bal[acc] == nil {
		p.Bal[acc] = map[string]*big.Int{}
	}
	if p.Bal[acc][asset] == nil {
		p.Bal[acc][asset] = new(big.Int)
	}
	p.Bal[acc][asset].Add(p.Bal[acc][asset], d)
}

func copyMeta(m metadata.Metadata) metadata.Metadata {
	if m == nil {
		return nil
	}
	out := metadata.Metadata{}
	for k, v := range m {
		out[k] = v
	}
	return out
}

func copyTx(t *ledger.Transaction) ledger.Transaction {
	c := *t
	c.ID = new(big.Int).Set(t.ID)
	c.Metadata = copyMeta(t.Metadata)
	c.Postings = make(ledger.Postings, len(t.Postings))
	for i, p := range t.Postings {
		c.Postings[i] = ledger.Posting{Source: p.Source, Destination: p.Destination, Asset: p.Asset, Amount: new(big.Int).Set(p.Amount)}
	}
	return c
}

func copyLog(l *ledger.ChainedLog) *ledger.ChainedLog {
	c := *l
	if l.ID != nil {
		c.ID = new(big.Int).Set(l.ID)
	}
	c.Hash = append([]byte{}, l.Hash...)
	switch d := l.Data.(type) {
	case ledger.NewTransactionLogPayload:
		tx := copyTx(d.Transaction)
		am := ledger.AccountMetadata(nil)
		if d.AccountMetadata != nil {
			am = ledger.AccountMetadata{}
			for a, m := range d.AccountMetadata {
				am[a] = copyMeta(m)
			}
		}
		c.Data = ledger.NewTransactionLogPayload{Transaction: &tx, AccountMetadata: am}
	case ledger.RevertedTransactionLogPayload:
		tx := copyTx(d.RevertTransaction)
		c.Data = ledger.RevertedTransactionLogPayload{RevertedTransactionID: new(big.Int).Set(d.RevertedTransactionID), RevertTransaction: &tx}
	case ledger.SetMetadataLogPayload:
		c.Data = ledger.SetMetadataLogPayload{TargetType: d.TargetType, TargetID: d.TargetID, Metadata: copyMeta(d.Metadata)}
	case ledger.DeleteMetadataLogPayload:
		c.Data = d
	}
	return &c
}

func idKey(v any) string {
	switch x := v.(type) {
	case *big.Int:
		return x.String()
	case string:
		return x
	default:
		return fmt.Sprint(v)
	}
}

func (p *Projection) applyTx(t *ledger.Transaction, idx int) {
	for _, po := range t.Postings {
		p.add(po.Source, po.Asset, new(big.Int).Neg(po.Amount))
		p.add(po.Destination, po.Asset, po.Amount)
	}
	id := t.ID.String()
	p.Txs[id] = &txRec{Tx: copyTx(t), LogIdx: idx}
	p.TxOrder = append(p.TxOrder, id)
	if t.Reference != "" {
		p.ByRef[t.Reference] = append(p.ByRef[t.Reference], id)
	}
}

func (p *Projection) Apply(l *ledger.ChainedLog, idx int) {
	if l.IdempotencyKey != "" {
		p.ByIK[l.IdempotencyKey] = append(p.ByIK[l.IdempotencyKey], idx)
	}
	switch d := l.Data.(type) {
	case ledger.NewTransactionLogPayload:
		p.applyTx(d.Transaction, idx)
		for a, m := range d.AccountMetadata {
			if p.AccMeta[a] == nil {
				p.AccMeta[a] = metadata.Metadata{}
			}
			for k, v := range m {
				p.AccMeta[a][k] = v
			}
		}
	case ledger.RevertedTransactionLogPayload:
		if r, ok := p.Txs[d.RevertedTransactionID.String()]; ok {
			r.Reverted = true
		}
		p.applyTx(d.RevertTransaction, idx)
	case ledger.SetMetadataLogPayload:
		switch d.TargetType {
		case ledger.MetaTargetTypeAccount:
			a := idKey(d.TargetID)
			if p.AccMeta[a] == nil {
				p.AccMeta[a] = metadata.Metadata{}
			}
			for k, v := range d.Metadata {
				p.AccMeta[a][k] = v
			}
		case ledger.MetaTargetTypeTransaction:
			if r, ok := p.Txs[idKey(d.TargetID)]; ok {
				if r.Tx.Metadata == nil {
					r.Tx.Metadata = metadata.Metadata{}
				}
				for k, v := range d.Metadata {
					r.Tx.Metadata[k] = v
				}
			}
		}
	case ledger.DeleteMetadataLogPayload:
		switch d.TargetType {
		case ledger.MetaTargetTypeAccount:
			delete(p.AccMeta[idKey(d.TargetID)], d.Key)
		case ledger.MetaTargetTypeTransaction:
			if r, ok := p.Txs[idKey(d.TargetID)]; ok {
				delete(r.Tx.Metadata, d.Key)
			}
		}
	}
}

// ------------------------------------------------------------------------------------------------ MonStore

// Gate: the store's two persistence steps are scheduler steps (controlled mode) or random delays (stress mode).
// It returns an error when the generation dies at that point.
type Gate func(ctx context.Context, point string) error

type BatchRec struct {
	N     int      `json:"n"`
	IDs   []string `json:"ids"`
	Step  int64    `json:"step"` // commit step
	Gen   int      `json:"generation"`
	Fails bool     `json:"failed,omitempty"`
}

type MonStore struct {
	mu          sync.Mutex
	logs        []*ledger.ChainedLog
	commitStep  []int64
	proj        *Projection
	Batches     []BatchRec
	step        *atomic.Int64
	gate        atomic.Pointer[Gate]
	gen         *atomic.Int64
	insertCalls int
	FailInsert  int // 1-based index of the InsertLogs call that fails (0 = never)
	ReadFault   func(method string) error
	reads       atomic.Int64
}

var errInjectedStore = errors.New("injected store failure")
var errGenerationDead = errors.New("generation died")

func (s *MonStore) SetGate(g Gate) { s.gate.Store(&g) }

func NewMonStore(step *atomic.Int64, gen *atomic.Int64) *MonStore {
	return &MonStore{proj: NewProjection(), step: step, gen: gen}
}

func (s *MonStore) readFault(m string) error {
	s.reads.Add(1)
	if s.ReadFault != nil {
		return s.ReadFault(m)
	}
	return nil
}

func (s *MonStore) Logs() []*ledger.ChainedLog {
	s.mu.Lock()
	defer s.mu.Unlock()
	out := make([]*ledger.ChainedLog, len(s.logs))
	for i, l := range s.logs {
		out[i] = copyLog(l)
	}
	return out
}

func (s *MonStore) CommitSteps() []int64 {
	s.mu.Lock()
	defer s.mu.Unlock()
	return append([]int64{}, s.commitStep...)
}

func (s *MonStore) GetBalance(ctx context.Context, address, asset string) (*big.Int, error) {
	if err := s.readFault("GetBalance"); err != nil {
		return nil, err
	}
	s.mu.Lock()
	defer s.mu.Unlock()
	return s.proj.Balance(address, asset), nil
}

func (s *MonStore) GetAccount(ctx context.Context, address string) (*ledger.Account, error) {
	if err := s.readFault("GetAccount"); err != nil {
		return nil, err
	}
	s.mu.Lock()
	defer s.mu.Unlock()
	m := copyMeta(s.proj.AccMeta[address])
	if m == nil {
		m = metadata.Metadata{}
	}
	return &ledger.Account{Address: address, Metadata: m}, nil
}

// gateKey: the worker context of a generation carries that generation's gate. A generation that has been killed can
// have a batch in flight whose goroutine reaches InsertLogs late (seen under heavy machine load): it must meet its own
// (dead) gate, never the gate of the generation that replaced it - a crashed process does not write.
type gateKey struct{}

func withGate(ctx context.Context, g Gate) context.Context { return context.WithValue(ctx, gateKey{}, g) }

func (s *MonStore) InsertLogs(ctx context.Context, logs ...*ledger.ChainedLog) error {
	gate := s.gate.Load()
	if g, ok := ctx.Value(gateKey{}).(Gate); ok {
		gate = &g
	}
	if g := gate; g != nil {
		if err := (*g)(ctx, "persist.begin"); err != nil {
			return err
		}
	}
	s.mu.Lock()
	s.insertCalls++
	if s.FailInsert != 0 && s.insertCalls == s.FailInsert {
		s.Batches = append(s.Batches, BatchRec{N: len(logs), Step: s.step.Add(1), Gen: int(s.gen.Load()), Fails: true})
		s.mu.Unlock()
		return errInjectedStore
	}
	rec := BatchRec{N: len(logs), Step: s.step.Add(1), Gen: int(s.gen.Load())}
	for _, l := range logs {
		c := copyLog(l)
		s.proj.Apply(c, len(s.logs))
		s.logs = append(s.logs, c)
		s.commitStep = append(s.commitStep, rec.Step)
		rec.IDs = append(rec.IDs, c.ID.String())
	}
	s.Batches = append(s.Batches, rec)
	s.mu.Unlock()
	if g := gate; g != nil {
		if err := (*g)(ctx, "persist.end"); err != nil {
			return err
		}
	}
	return nil
}

func (s *MonStore) GetLastLog(ctx context.Context) (*ledger.ChainedLog, error) {
	if err := s.readFault("GetLastLog"); err != nil {
		return nil, err
	}
	s.mu.Lock()
	defer s.mu.Unlock()
	if len(s.logs) == 0 {
		return nil, sqlutils.ErrNotFound
	}
	return copyLog(s.logs[len(s.logs)-1]), nil
}

func (s *MonStore) expanded(r *txRec) *ledger.ExpandedTransaction {
	t := copyTx(&r.Tx)
	t.Reverted = r.Reverted
	return &ledger.ExpandedTransaction{Transaction: t}
}

func (s *MonStore) GetLastTransaction(ctx context.Context) (*ledger.ExpandedTransaction, error) {
	if err := s.readFault("GetLastTransaction"); err != nil {
		return nil, err
	}
	s.mu.Lock()
	defer s.mu.Unlock()
	if len(s.proj.TxOrder) == 0 {
		return nil, sqlutils.ErrNotFound
	}
	return s.expanded(s.proj.Txs[s.proj.TxOrder[len(s.proj.TxOrder)-1]]), nil
}

func (s *MonStore) ReadLogWithIdempotencyKey(ctx context.Context, key string) (*ledger.ChainedLog, error) {
	if err := s.readFault("ReadLogWithIdempotencyKey"); err != nil {
		return nil, err
	}
	s.mu.Lock()
	defer s.mu.Unlock()
	idx := s.proj.ByIK[key]
	if len(idx) == 0 {
		return nil, sqlutils.ErrNotFound
	}
	return copyLog(s.logs[idx[len(idx)-1]]), nil
}

func (s *MonStore) GetTransactionByReference(ctx context.Context, ref string) (*ledger.ExpandedTransaction, error) {
	if err := s.readFault("GetTransactionByReference"); err != nil {
		return nil, err
	}
	s.mu.Lock()
	defer s.mu.Unlock()
	ids := s.proj.ByRef[ref]
	if len(ids) == 0 {
		return nil, sqlutils.ErrNotFound
	}
	return s.expanded(s.proj.Txs[ids[0]]), nil
}

func (s *MonStore) GetTransaction(ctx context.Context, txID *big.Int) (*ledger.Transaction, error) {
	if err := s.readFault("GetTransaction"); err != nil {
		return nil, err
	}
	s.mu.Lock()
	defer s.mu.Unlock()
	r, ok := s.proj.Txs[txID.String()]
	if !ok {
		return nil, sqlutils.ErrNotFound
	}
	t := copyTx(&r.Tx)
	t.Reverted = r.Reverted
	return &t, nil
}

// Snapshot of the projection for oracles (balances as strings).
func (s *MonStore) BalancesString() map[string]map[string]string {
	s.mu.Lock()
	defer s.mu.Unlock()
	out := map[string]map[string]string{}
	for a, m := range s.proj.Bal {
		out[a] = map[string]string{}
		for as, b := range m {
			out[a][as] = b.String()
		}
	}
	return out
}
