package main

import (
	"context"
	"fmt"
	"math/big"

	ledger "github.com/formancehq/ledger/internal"
	"github.com/formancehq/ledger/internal/bus"
	"github.com/formancehq/ledger/internal/engine/command"
	"github.com/formancehq/ledger/internal/storage"
	"github.com/formancehq/ledger/internal/storage/sqlutils"
	vc "github.com/formancehq/ledger/internal/verif/vcommon"
)

// C04, part 3: storage.InMemoryStore (an anchor of the property): after every write of a sequential Commander history
// on it, what it reports is compared with the fold of the log entries it was given.

type capStore struct {
	*storage.InMemoryStore
	logs []*ledger.ChainedLog
}

func (c *capStore) InsertLogs(ctx context.Context, logs ...*ledger.ChainedLog) error {
	for _, l := range logs {
		c.logs = append(c.logs, copyLog(l))
	}
	return c.InMemoryStore.InsertLogs(ctx, logs...)
}

func runC04InMemory(cfg *vc.Config, rep *vc.Report) {
	ctx := context.Background()
	cfg.Cases(400, 40000, func(i int, r *vc.Rand) {
		st := &capStore{InMemoryStore: storage.NewInMemoryStore()}
		cmd := command.New(st, command.NoOpLocker, command.NewCompiler(16), command.NewReferencer(), bus.NewNoOpMonitor())
		_ = cmd.Init(ctx)
		go func() {
			defer func() { _ = recover() }()
			cmd.Run(ctx)
		}()
		g := &opGen{r: r}
		n := r.Range(3, 25)
		var ops []Op
		nTx := 0
		for k := 0; k < n; k++ {
			var op Op
			if k < 2 {
				op = g.fund(vc.Pick(r, accts), int64(r.Range(50, 300)))
			} else {
				op = g.mixedOp(nTx, false)
				op.CancelAt = 0
			}
			if r.Chance(1, 6) {
				op.Reference = "ref-" + op.Tag
			}
			if r.Chance(1, 8) {
				op.IK = "ik-" + op.Tag
			}
			ops = append(ops, op)
			nTx++
		}
		rep.Current(map[string]any{"index": i, "ops": ops})
		rep.Eval()
		gen := &Generation{cmd: cmd}
		for k, op := range ops {
			res := execOp(ctx, gen, op)
			if res.Class == "panic" {
				rep.Inc("requests_panicked")
				continue
			}
			// fold of what the store was given
			proj := NewProjection()
			for j, l := range st.logs {
				proj.Apply(l, j)
			}
			viol := func(rule, what string) {
				rep.Violate("inmemory:"+rule, what, i, map[string]any{"index": i, "ops": ops[:k+1]})
			}
			for a, m := range proj.Bal {
				for as, want := range m {
					got, err := st.GetBalance(ctx, a, as)
					rep.Inc("inmemory_reads_compared")
					if err != nil || got.Cmp(want) != 0 {
						viol("balance-differs", fmt.Sprintf("%s/%s: store reports %v (err %v), replay of its log gives %s", a, as, got, err, want))
					}
				}
			}
			for id, tr := range proj.Txs {
				bid, _ := new(big.Int).SetString(id, 10)
				got, err := st.GetTransaction(ctx, bid)
				rep.Inc("inmemory_reads_compared")
				if err != nil {
					viol("transaction-missing", fmt.Sprintf("tx %s: %v", id, err))
					continue
				}
				if got.Reverted != tr.Reverted {
					viol("reverted-flag-differs", fmt.Sprintf("tx %s: store says reverted=%v, replay says %v", id, got.Reverted, tr.Reverted))
				}
				if fmt.Sprint(map[string]string(got.Metadata)) != fmt.Sprint(map[string]string(tr.Tx.Metadata)) {
					viol("transaction-metadata-differs", fmt.Sprintf("tx %s: store reports %v, replay of its log gives %v", id, got.Metadata, tr.Tx.Metadata))
				}
				if fmt.Sprint(postingsJ(got.Postings)) != fmt.Sprint(postingsJ(tr.Tx.Postings)) {
					viol("postings-differ", fmt.Sprintf("tx %s", id))
				}
			}
			for ref, ids := range proj.ByRef {
				got, err := st.GetTransactionByReference(ctx, ref)
				rep.Inc("inmemory_reads_compared")
				if err != nil || got.ID.String() != ids[0] {
					viol("reference-lookup-differs", fmt.Sprintf("reference %s: %v %v, replay says tx %s", ref, got, err, ids[0]))
				}
			}
			if _, err := st.GetTransactionByReference(ctx, "no-such-reference"); !sqlutils.IsNotFoundError(err) {
				viol("unknown-reference-found", fmt.Sprint(err))
			}
			for ik, idx := range proj.ByIK {
				got, err := st.ReadLogWithIdempotencyKey(ctx, ik)
				rep.Inc("inmemory_reads_compared")
				if err != nil || got.ID.Cmp(st.logs[idx[0]].ID) != 0 {
					viol("idempotency-lookup-differs", fmt.Sprintf("key %s: %v %v", ik, got, err))
				}
			}
			if len(st.logs) > 0 {
				last, err := st.GetLastLog(ctx)
				if err != nil || last == nil || last.ID.Cmp(st.logs[len(st.logs)-1].ID) != 0 {
					viol("last-log-differs", fmt.Sprint(last, err))
				}
			}
			if len(proj.TxOrder) > 0 {
				lt, err := st.GetLastTransaction(ctx)
				if err != nil || lt.ID.String() != proj.TxOrder[len(proj.TxOrder)-1] {
					viol("last-transaction-differs", fmt.Sprint(lt, err))
				}
			}
			for a, m := range proj.AccMeta {
				if len(m) == 0 {
					continue
				}
				acc, err := st.GetAccount(ctx, a)
				rep.Inc("inmemory_reads_compared")
				if err != nil || fmt.Sprint(map[string]string(acc.Metadata)) != fmt.Sprint(map[string]string(m)) {
					viol("account-metadata-differs", fmt.Sprintf("account %s: store reports %v, replay of its log gives %v", a, acc.Metadata, m))
				}
			}
		}
		rep.Add("inmemory_ops", int64(len(ops)))
		rep.DistinctCase(vc.Hash64(vc.MustJSON(ops)))
		if rep.WantSample() {
			rep.Sample(map[string]any{"engine": "storage.InMemoryStore", "ops": len(ops), "logs": len(st.logs), "first_ops": ops[:3]})
		}
	})
}

// C10 on storage.InMemoryStore (an anchor of C10: the already-reverted guard reads the Reverted flag from the store):
// sequential histories that revert, then touch the reverted transaction's metadata, then revert again.
func runC10InMemory(cfg *vc.Config, rep *vc.Report) {
	ctx := context.Background()
	cfg.Cases(600, 40000, func(i int, r *vc.Rand) {
		st := &capStore{InMemoryStore: storage.NewInMemoryStore()}
		cmd := command.New(st, command.NoOpLocker, command.NewCompiler(16), command.NewReferencer(), bus.NewNoOpMonitor())
		_ = cmd.Init(ctx)
		go func() {
			defer func() { _ = recover() }()
			cmd.Run(ctx)
		}()
		defer func() { go func() { defer func() { _ = recover() }(); cmd.Close() }() }()
		g := &opGen{r: r}
		ops := []Op{g.fund("alice", 1000)}
		nTx := 1
		for k := r.Range(1, 3); k > 0; k-- {
			ops = append(ops, g.postings(P("alice", vc.Pick(r, []string{"bob", "carol"}), int64(r.Range(1, 50))), P("alice", "dave", int64(r.Range(1, 50)))))
			nTx++
		}
		for k := r.Range(3, 14); k > 0; k-- {
			id := fmt.Sprint(r.Intn(nTx))
			switch r.Intn(6) {
			case 0, 1:
				ops = append(ops, g.revert(id, r.Bool()))
				nTx++
			case 2:
				ops = append(ops, g.saveMetaTx(id))
			case 3:
				ops = append(ops, g.delMetaTx(id))
			case 4:
				ops = append(ops, g.saveMetaAcc("alice", nil))
			default:
				ops = append(ops, g.fund("alice", int64(r.Range(1, 100))))
				nTx++
			}
		}
		rep.Current(map[string]any{"index": i, "ops": ops})
		rep.Eval()
		gen := &Generation{cmd: cmd}
		o := &Observed{DeathFree: true}
		for k, op := range ops {
			res := execOp(ctx, gen, op)
			o.Recs = append(o.Recs, &Record{Seq: k, Client: "c", Gen: 1, Op: op, Res: res, CallStep: int64(2 * k), RetStep: int64(2*k + 1)})
			if op.Kind == "revert" {
				rep.Inc("inmemory_reverts")
				if res.OK {
					rep.Inc("inmemory_reverts_ok")
				} else if res.Class == "already-reverted" {
					rep.Inc("inmemory_reverts_refused_as_already_reverted")
				}
			}
		}
		o.Logs = st.logs
		for range o.Logs {
			o.CommitSteps = append(o.CommitSteps, 0)
		}
		seen := map[string]bool{}
		for _, f := range checkReverts(o) {
			if !seen[f.Rule] {
				seen[f.Rule] = true
				rep.Violate("inmemory:"+f.Rule, f.What, i, map[string]any{"index": i, "ops": ops})
			}
		}
		rep.DistinctCase(vc.Hash64(fmt.Sprint(i), fmt.Sprint(len(ops))))
	})
}
