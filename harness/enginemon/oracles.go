package main

import (
	"os"
	"bytes"
	"crypto/sha256"
	"encoding/json"
	"fmt"
	"math/big"
	"reflect"
	"sort"
	"strings"
	"time"

	ledger "github.com/formancehq/ledger/internal"
)

// Observed: everything recorded during one scenario.
type Observed struct {
	Recs        []*Record
	Logs        []*ledger.ChainedLog
	CommitSteps []int64
	Batches     []BatchRec
	Msgs        []BusMsg
	DeathFree   bool
}

// Observe takes the final snapshot of a run and then shuts the generations that are still alive down (their runner and
// worker goroutines would otherwise stay for the life of the process; thousands of runs share one process).
func (e *Env) Observe(deathFree bool) *Observed {
	defer e.shutdown()
	return &Observed{Recs: e.hist.Snapshot(), Logs: e.store.Logs(), CommitSteps: e.store.CommitSteps(), Batches: append([]BatchRec{}, e.store.Batches...), Msgs: e.bus.Snapshot(), DeathFree: deathFree}
}

type Finding struct {
	Rule string
	What string
}

func logKind(l *ledger.ChainedLog) string { return l.Type.String() }

func logTx(l *ledger.ChainedLog) *ledger.Transaction {
	switch d := l.Data.(type) {
	case ledger.NewTransactionLogPayload:
		return d.Transaction
	case ledger.RevertedTransactionLogPayload:
		return d.RevertTransaction
	}
	return nil
}

// logTag: which logical request produced this entry.
func logTag(l *ledger.ChainedLog) string {
	switch d := l.Data.(type) {
	case ledger.NewTransactionLogPayload:
		return d.Transaction.Metadata["req"]
	case ledger.RevertedTransactionLogPayload:
		return "rv:" + d.RevertedTransactionID.String()
	case ledger.SetMetadataLogPayload:
		if id, ok := d.TargetID.(string); ok && strings.HasPrefix(id, "tagged:") && d.Metadata["req"] == "" {
			return id
		}
		return d.Metadata["req"]
	case ledger.DeleteMetadataLogPayload:
		return d.Key
	}
	return ""
}

func (o *Observed) logGeneration(i int) int {
	id := o.Logs[i].ID.String()
	for _, b := range o.Batches {
		if b.Fails {
			continue
		}
		for _, x := range b.IDs {
			if x == id && b.Step == o.CommitSteps[i] {
				return b.Gen
			}
		}
	}
	return 0
}

func postingsJ(ps ledger.Postings) []PostingJ {
	var out []PostingJ
	for _, p := range ps {
		out = append(out, PostingJ{p.Source, p.Destination, p.Amount.String(), p.Asset})
	}
	return out
}

// ------------------------------------------------------------------------------------------------ C05

func rehash(entry ledger.ChainedLog, prevHash []byte, first bool) []byte {
	h := sha256.New()
	if !first {
		b, _ := json.Marshal(prevHash)
		h.Write(b)
		h.Write([]byte("\n"))
	}
	entry.ID = big.NewInt(0)
	entry.Hash = nil
	b, _ := json.Marshal(entry)
	h.Write(b)
	h.Write([]byte("\n"))
	return h.Sum(nil)
}

func checkChain(o *Observed) []Finding {
	var out []Finding
	ids := make([]string, len(o.Logs))
	for i, l := range o.Logs {
		ids[i] = l.ID.String()
	}
	ctx := func(i int) string {
		if g := o.logGeneration(i); g > 1 {
			return "after-restart"
		}
		return "first-generation"
	}
	for i, l := range o.Logs {
		if l.ID.Cmp(big.NewInt(int64(i))) != 0 {
			rule := "log-id-out-of-order"
			if i > 0 && l.ID.Cmp(o.Logs[i-1].ID) == 0 {
				rule = "log-id-duplicate"
			}
			for j := 0; j < i; j++ {
				if o.Logs[j].ID.Cmp(l.ID) == 0 {
					rule = "log-id-duplicate"
				}
			}
			out = append(out, Finding{rule + ":" + ctx(i), fmt.Sprintf("entry at position %d carries id %s; ids in insertion order: %s", i, l.ID, strings.Join(ids, ","))})
			break
		}
	}
	for i, l := range o.Logs {
		var prev []byte
		if i > 0 {
			prev = o.Logs[i-1].Hash
		}
		if !bytes.Equal(rehash(*l, prev, i == 0), l.Hash) {
			out = append(out, Finding{"hash-chain-broken:" + ctx(i), fmt.Sprintf("entry at position %d (id %s, %s): hash is not sha256(previous stored hash, content)", i, l.ID, l.Type)})
			break
		}
	}
	next := int64(0)
	var txids []string
	for _, l := range o.Logs {
		if t := logTx(l); t != nil {
			txids = append(txids, t.ID.String())
		}
	}
	for i, l := range o.Logs {
		if t := logTx(l); t != nil {
			if t.ID.Cmp(big.NewInt(next)) != 0 {
				out = append(out, Finding{"txid-not-increasing-in-log-order:" + ctx(i), fmt.Sprintf("transaction ids in log order: %s (expected 0,1,2,...)", strings.Join(txids, ","))})
				break
			}
			next++
		}
	}
	return out
}

// ------------------------------------------------------------------------------------------------ C06

func sameTx(a *TxJ, t *ledger.Transaction) string {
	b := txJ(t)
	if a.ID != b.ID {
		return fmt.Sprintf("id %s vs %s", a.ID, b.ID)
	}
	if !reflect.DeepEqual(a.Postings, b.Postings) {
		return fmt.Sprintf("postings %v vs %v", a.Postings, b.Postings)
	}
	if !reflect.DeepEqual(a.Metadata, b.Metadata) {
		return fmt.Sprintf("metadata %v vs %v", a.Metadata, b.Metadata)
	}
	if a.Reference != b.Reference {
		return fmt.Sprintf("reference %q vs %q", a.Reference, b.Reference)
	}
	if a.Timestamp != b.Timestamp {
		return fmt.Sprintf("timestamp %s vs %s", a.Timestamp, b.Timestamp)
	}
	return ""
}

func checkAckPersist(o *Observed) []Finding {
	var out []Finding
	// one logical request = one tag; requests carrying an idempotency key are one logical request per key, whatever their
	// payload says (a second request under a recorded key is answered with the recorded outcome and writes nothing)
	// (a tag alone says nothing about the key: the reverts of one target share a tag whether they carry a key or not)
	ident := func(tag, ik string) string {
		if ik != "" {
			return "key:" + ik
		}
		return tag
	}
	logsByTag := map[string][]int{}
	for i, l := range o.Logs {
		id := ident(logTag(l), l.IdempotencyKey)
		logsByTag[id] = append(logsByTag[id], i)
	}
	recsByTag := map[string][]*Record{}
	for _, r := range o.Recs {
		ik := r.Op.IK
		if r.Op.DryRun {
			ik = ""
		}
		id := ident(r.Op.Tag, ik)
		if r.Op.DryRun {
			id = r.Op.Tag
		}
		recsByTag[id] = append(recsByTag[id], r)
	}
	for tag, recs := range recsByTag {
		nOK := 0
		for _, r := range recs {
			if r.Res != nil && r.Res.OK && !r.Op.DryRun {
				nOK++
			}
		}
		li := logsByTag[tag]
		for _, r := range recs {
			if r.Op.DryRun {
				continue
			}
			kind := r.Op.Kind
			switch {
			case r.Res != nil && r.Res.OK:
				if len(li) == 0 {
					out = append(out, Finding{"acknowledged-but-not-persisted:" + kind, fmt.Sprintf("request %s (%s) reported success at step %d but no log entry carries it", tag, kind, r.RetStep)})
					continue
				}
				if len(li) > 1 {
					out = append(out, Finding{"one-request-several-logs:" + kind, fmt.Sprintf("request %s has %d log entries (positions %v)", tag, len(li), li)})
					continue
				}
				if o.CommitSteps[li[0]] > r.RetStep {
					out = append(out, Finding{"acknowledged-before-persisted:" + kind, fmt.Sprintf("request %s returned at step %d, its log was committed at step %d", tag, r.RetStep, o.CommitSteps[li[0]])})
				}
				if r.Res.Tx != nil {
					if t := logTx(o.Logs[li[0]]); t != nil {
						if d := sameTx(r.Res.Tx, t); d != "" {
							out = append(out, Finding{"acknowledged-content-differs:" + kind, fmt.Sprintf("request %s: returned vs persisted: %s", tag, d)})
						}
					}
				}
			case r.Res != nil && !r.Res.OK && r.Res.Class != "panic":
				if nOK == 0 && len(li) > 0 && allAnswered(recs) {
					out = append(out, Finding{"rejected-but-logged:" + kind + ":" + r.Res.Class, fmt.Sprintf("request %s was answered with error %q yet log position %v carries it", tag, r.Res.Err, li)})
				}
			case r.Res == nil:
				if len(li) > 1 {
					out = append(out, Finding{"open-request-several-logs:" + kind, fmt.Sprintf("request %s never answered, %d log entries", tag, len(li))})
				}
			}
		}
	}
	for tag, li := range logsByTag {
		if len(recsByTag[tag]) == 0 {
			out = append(out, Finding{"log-without-request:" + logKind(o.Logs[li[0]]), fmt.Sprintf("log position %v (tag %q) was produced by no request", li, tag)})
		}
	}
	return out
}

func allAnswered(recs []*Record) bool {
	for _, r := range recs {
		if r.Res == nil {
			return false
		}
	}
	return true
}

// ------------------------------------------------------------------------------------------------ C07

func checkIdempotency(o *Observed) []Finding {
	var out []Finding
	byIK := map[string][]int{}
	for i, l := range o.Logs {
		if l.IdempotencyKey != "" {
			byIK[l.IdempotencyKey] = append(byIK[l.IdempotencyKey], i)
		}
	}
	recs := map[string][]*Record{}
	for _, r := range o.Recs {
		if r.Op.IK != "" && !r.Op.DryRun {
			recs[r.Op.IK] = append(recs[r.Op.IK], r)
		}
	}
	for ik, li := range byIK {
		if len(li) > 1 {
			kind := logKind(o.Logs[li[0]])
			how := "same-generation"
			if o.logGeneration(li[0]) != o.logGeneration(li[len(li)-1]) {
				how = "across-restart"
			}
			out = append(out, Finding{"ik-took-effect-twice:" + kind + ":" + how, fmt.Sprintf("idempotency key %q is carried by %d log entries (positions %v)", ik, len(li), li)})
		}
	}
	// attempts sharing a key are one logical request (one tag): more than one log entry for it = more than one effect
	logsByTag := map[string][]int{}
	for i, l := range o.Logs {
		logsByTag[logTag(l)] = append(logsByTag[logTag(l)], i)
	}
	for ik, rs := range recs {
		tag := rs[0].Op.Tag
		if li := logsByTag[tag]; len(li) > 1 && len(byIK[ik]) <= 1 && rs[0].Op.Kind != "revert" {
			out = append(out, Finding{"ik-took-effect-twice:" + logKind(o.Logs[li[0]]) + ":key-not-recorded", fmt.Sprintf("the write with key %q has %d log entries (positions %v); the entries do not carry the key", ik, len(li), li)})
		}
	}
	for ik, rs := range recs {
		var first *Record
		for _, r := range rs {
			if r.Res == nil || !r.Res.OK {
				continue
			}
			// (a metadata write answers without content: there is nothing to compare it with - it can only be judged by what
			// the log holds under the key)
			if r.Res.Tx == nil {
			} else if first == nil {
				first = r
			} else if r.Res.TxID != first.Res.TxID || !reflect.DeepEqual(r.Res.Tx, first.Res.Tx) {
				out = append(out, Finding{"ik-successes-differ:" + r.Op.Kind, fmt.Sprintf("key %q: attempt %d returned tx %s, attempt %d returned tx %s", ik, first.Op.Attempt, first.Res.TxID, r.Op.Attempt, r.Res.TxID)})
			}
			li := byIK[ik]
			if len(li) > 0 {
				// the single effect under the key is of one kind; a success reported to a write of another kind acknowledges
				// something that was never written
				want := map[string]string{"script": "NEW_TRANSACTION", "postings": "NEW_TRANSACTION", "revert": "REVERTED_TRANSACTION", "savemeta": "SET_METADATA", "delmeta": "DELETE_METADATA"}[r.Op.Kind]
				if got := o.Logs[li[0]].Type.String(); want != "" && got != want && len(li) == 1 {
					out = append(out, Finding{"ik-success-for-another-kind-of-write:" + r.Op.Kind, fmt.Sprintf("key %q: a %s request was answered with success; the only entry under the key is a %s", ik, r.Op.Kind, got)})
					continue
				}
			}
			if len(li) == 0 {
				out = append(out, Finding{"ik-success-without-effect:" + r.Op.Kind, fmt.Sprintf("key %q: success returned but no log entry carries the key", ik)})
			} else if len(o.CommitSteps) > li[0] && r.RetStep >= 0 && o.CommitSteps[li[0]] > r.RetStep {
				out = append(out, Finding{"ik-success-before-the-entry-was-persisted:" + r.Op.Kind, fmt.Sprintf("key %q: attempt %d was answered at step %d, the entry carrying the key was persisted at step %d", ik, r.Op.Attempt, r.RetStep, o.CommitSteps[li[0]])})
			} else if t := logTx(o.Logs[li[0]]); t != nil && r.Res.Tx != nil {
				if d := sameTx(r.Res.Tx, t); d != "" {
					out = append(out, Finding{"ik-success-is-not-the-persisted-effect:" + r.Op.Kind, fmt.Sprintf("key %q: %s", ik, d)})
				}
			}
		}
	}
	return out
}

// ------------------------------------------------------------------------------------------------ C11

func checkReferences(o *Observed) []Finding {
	var out []Finding
	byRef := map[string][]int{}
	for i, l := range o.Logs {
		if t := logTx(l); t != nil && t.Reference != "" {
			byRef[t.Reference] = append(byRef[t.Reference], i)
		}
	}
	for ref, li := range byRef {
		if len(li) > 1 {
			ids := []string{}
			for _, i := range li {
				ids = append(ids, logTx(o.Logs[i]).ID.String())
			}
			out = append(out, Finding{"reference-committed-twice", fmt.Sprintf("reference %q is carried by transactions %s (log positions %v)", ref, strings.Join(ids, ","), li)})
		}
	}
	for _, r := range o.Recs {
		if r.Op.Reference == "" || r.Res == nil || r.Op.IK != "" {
			continue
		}
		li := byRef[r.Op.Reference]
		if len(li) == 0 {
			continue
		}
		winnerCommit := o.CommitSteps[li[0]]
		isWinner := logTag(o.Logs[li[0]]) == r.Op.Tag
		if isWinner {
			continue
		}
		if r.CallStep > winnerCommit {
			if r.Res.OK && r.Op.DryRun {
				// a preview is an attempt like any other: it is told about the conflict, it is not shown a transaction that
				// cannot be committed
				out = append(out, Finding{"late-duplicate-not-a-conflict:preview-accepted", fmt.Sprintf("preview %s reuses reference %q after it was committed and was answered with a transaction", r.Op.Tag, r.Op.Reference)})
				continue
			}
			if r.Res.OK {
				continue // already reported as committed twice
			}
			// an injected store failure on the lookup is an answer of its own: the request is refused and changes nothing
			if r.Res.Class != "conflict" && !strings.Contains(r.Res.Err, "injected read failure") {
				out = append(out, Finding{"late-duplicate-not-a-conflict:" + r.Res.Class, fmt.Sprintf("request %s reuses reference %q after it was committed and got %q", r.Op.Tag, r.Op.Reference, r.Res.Err)})
			}
		}
	}
	return out
}

// ------------------------------------------------------------------------------------------------ C02

// checkNoDoubleSpend replays the persisted log from genesis in log order: every accepted transaction's sources must
// hold enough at its position, within the overdraft the request that produced it declares.
func checkNoDoubleSpend(o *Observed) []Finding {
	var out []Finding
	recByTag := map[string]*Record{}
	for _, r := range o.Recs {
		if _, ok := recByTag[r.Op.Tag]; !ok {
			recByTag[r.Op.Tag] = r
		}
		if r.Op.Kind == "revert" && r.Op.Force { // any forced attempt makes the revert a forced one
			recByTag[r.Op.Tag] = r
		}
	}
	run := NewProjection()
	for i, l := range o.Logs {
		t := logTx(l)
		if t == nil {
			continue
		}
		rec := recByTag[logTag(l)]
		for pi, p := range t.Postings {
			if p.Amount.Sign() < 0 {
				out = append(out, Finding{"negative-posting", fmt.Sprintf("log %d posting %d", i, pi)})
			}
			run.add(p.Source, p.Asset, new(big.Int).Neg(p.Amount))
			run.add(p.Destination, p.Asset, p.Amount)
			if p.Source == "world" || p.Amount.Sign() == 0 {
				continue
			}
			floor := new(big.Int)
			unbounded := false
			how := "literal"
			if rec != nil {
				if rec.Op.Kind == "revert" {
					how = "revert"
					unbounded = rec.Op.Force
				}
				if od, ok := rec.Op.Overdraft[p.Source]; ok {
					if od == "unbounded" {
						unbounded = true
					} else if n, ok := new(big.Int).SetString(od, 10); ok {
						floor.Neg(n)
					}
				}
				if rec.Op.Vars != nil && rec.Op.Kind == "script" {
					how = "variable"
				}
				if strings.Contains(rec.Op.Plain, "meta(") {
					how = "meta"
				}
				if rec.Op.Kind == "postings" {
					how = "postings"
				}
			}
			if unbounded {
				continue
			}
			if bal := run.Balance(p.Source, p.Asset); bal.Cmp(floor) < 0 {
				out = append(out, Finding{"overdraw-in-log-order:source-designated-by-" + how,
					fmt.Sprintf("log %d (tx %s, request %s) posting %d %s->%s %s %s leaves %s at %s (floor %s) when the log is replayed in order",
						i, t.ID, logTag(l), pi, p.Source, p.Destination, p.Amount, p.Asset, p.Source, bal, floor)})
				return out
			}
		}
	}
	return out
}

// ------------------------------------------------------------------------------------------------ C10

func checkReverts(o *Observed) []Finding {
	var out []Finding
	proj := NewProjection()
	seenTarget := map[string]int{}
	before := map[string]map[string]map[string]string{} // tx id -> balances snapshot before it was applied
	snap := func() map[string]map[string]string {
		m := map[string]map[string]string{}
		for a, mm := range proj.Bal {
			for as, b := range mm {
				if b.Sign() != 0 {
					if m[a] == nil {
						m[a] = map[string]string{}
					}
					m[a][as] = b.String()
				}
			}
		}
		return m
	}
	lastTxLog := map[string]int{}
	for i, l := range o.Logs {
		if t := logTx(l); t != nil {
			before[t.ID.String()] = snap()
			lastTxLog[t.ID.String()] = i
		}
		if d, ok := l.Data.(ledger.RevertedTransactionLogPayload); ok {
			target := d.RevertedTransactionID.String()
			if j, dup := seenTarget[target]; dup {
				out = append(out, Finding{"reverted-twice", fmt.Sprintf("transaction %s is reverted by log %d and again by log %d", target, j, i)})
			}
			seenTarget[target] = i
			orig, ok := proj.Txs[target]
			if !ok {
				out = append(out, Finding{"revert-of-unknown-transaction", fmt.Sprintf("log %d reverts %s which is not in the log before it", i, target)})
			} else {
				want := make([]PostingJ, 0, len(orig.Tx.Postings))
				for k := len(orig.Tx.Postings) - 1; k >= 0; k-- {
					p := orig.Tx.Postings[k]
					want = append(want, PostingJ{p.Destination, p.Source, p.Amount.String(), p.Asset})
				}
				got := postingsJ(d.RevertTransaction.Postings)
				if os.Getenv("VERIF_DEBUG") != "" {
					fmt.Fprintln(os.Stderr, "REVERT", target, postingsJ(orig.Tx.Postings), "->", got)
				}
				if !reflect.DeepEqual(want, got) {
					out = append(out, Finding{"revert-is-not-the-exact-inverse", fmt.Sprintf("original %s postings %v; revert postings %v; expected %v", target, postingsJ(orig.Tx.Postings), got, want)})
				}
			}
		}
		proj.Apply(l, i)
		if d, ok := l.Data.(ledger.RevertedTransactionLogPayload); ok {
			target := d.RevertedTransactionID.String()
			// nothing else touched the ledger between the original and its revert: every account is back where it stood
			onlyMeta := true
			for k := lastTxLog[target] + 1; k < i; k++ {
				if logTx(o.Logs[k]) != nil {
					onlyMeta = false
				}
			}
			if _, known := before[target]; known && onlyMeta {
				if now := snap(); !reflect.DeepEqual(now, before[target]) {
					out = append(out, Finding{"revert-does-not-restore-balances", fmt.Sprintf("before tx %s: %v; after its revert: %v", target, before[target], now)})
				}
			}
		}
	}
	// answers
	for _, r := range o.Recs {
		if r.Op.Kind != "revert" || r.Res == nil || !r.Res.OK || r.Op.DryRun {
			continue
		}
		i, ok := seenTarget[r.Op.TxID]
		if !ok {
			continue // C06 reports it
		}
		if t := logTx(o.Logs[i]); t != nil && r.Res.Tx != nil && r.Op.IK == "" {
			if d := sameTx(r.Res.Tx, t); d != "" {
				// two successes for one target: the second cannot match
				out = append(out, Finding{"revert-answer-differs-from-log", fmt.Sprintf("revert of %s: %s", r.Op.TxID, d)})
			}
		}
	}
	for _, r := range o.Recs {
		// forced mode means: whatever the accounts hold (every source of the mirror transaction may go into overdraft)
		if r.Op.Kind == "revert" && r.Op.Force && r.Res != nil && !r.Res.OK && r.Res.Class == "insufficient" {
			out = append(out, Finding{"forced-revert-refused-for-lack-of-funds", fmt.Sprintf("forced revert of %s: %s", r.Op.TxID, r.Res.Err)})
		}
	}
	nOK := map[string]int{}
	for _, r := range o.Recs {
		if r.Op.Kind == "revert" && r.Res != nil && r.Res.OK && !r.Op.DryRun && r.Op.IK == "" {
			nOK[r.Op.TxID]++
		}
	}
	for id, n := range nOK {
		if n > 1 {
			out = append(out, Finding{"revert-succeeded-twice", fmt.Sprintf("%d revert requests of transaction %s reported success", n, id)})
		}
	}
	return out
}

// ------------------------------------------------------------------------------------------------ C09

func checkPostingMode(o *Observed) []Finding {
	var out []Finding
	logsByTag := map[string][]int{}
	for i, l := range o.Logs {
		logsByTag[logTag(l)] = append(logsByTag[logTag(l)], i)
	}
	for _, r := range o.Recs {
		if r.Op.Kind != "postings" || r.Res == nil || r.Op.DryRun {
			continue
		}
		li := logsByTag[r.Op.Tag]
		if !r.Res.OK {
			if len(li) > 0 && r.Op.IK == "" {
				out = append(out, Finding{"rejected-posting-request-left-a-log", fmt.Sprintf("request %s: %s", r.Op.Tag, r.Res.Err)})
			}
			continue
		}
		cmp := func(where string, t *TxJ) {
			if !reflect.DeepEqual(t.Postings, r.Op.Postings) {
				out = append(out, Finding{"postings-differ:" + where, fmt.Sprintf("requested %v\n     %s %v", r.Op.Postings, where, t.Postings)})
			}
			want := map[string]string{}
			for k, v := range r.Op.Meta {
				want[k] = v
			}
			if !reflect.DeepEqual(t.Metadata, want) {
				out = append(out, Finding{"metadata-differs:" + where, fmt.Sprintf("requested %v, %s %v", want, where, t.Metadata)})
			}
			if t.Reference != r.Op.Reference {
				out = append(out, Finding{"reference-differs:" + where, fmt.Sprintf("requested %q, %s %q", r.Op.Reference, where, t.Reference)})
			}
			if r.Op.Timestamp != "" {
				// the instant the client wrote, at the ledger's microsecond precision - computed with the standard library,
				// not with the ledger's own parser
				want0, _ := time.Parse(time.RFC3339Nano, r.Op.Timestamp)
				want := struct{ time.Time }{want0.Round(time.Microsecond)}
				got, err := time.Parse(time.RFC3339Nano, t.Timestamp)
				if err != nil || !got.Equal(want.Time) {
					out = append(out, Finding{"timestamp-differs:" + where, fmt.Sprintf("requested %s (%s), %s %s", r.Op.Timestamp, want.Format(time.RFC3339Nano), where, t.Timestamp)})
				}
			}
		}
		if r.Res.Tx != nil {
			cmp("returned", r.Res.Tx)
		}
		if len(li) == 1 {
			cmp("persisted", txJ(logTx(o.Logs[li[0]])))
		}
	}
	return out
}

// ------------------------------------------------------------------------------------------------ C16

func checkEvents(o *Observed) []Finding {
	var out []Finding
	published := map[int]bool{}
	find := func(pred func(i int, l *ledger.ChainedLog) bool, upto int) int {
		// several entries can have the same content (e.g. two empty metadata writes on one target): an entry not yet
		// described by an event is preferred
		for i, l := range o.Logs {
			if i < upto && !published[i] && pred(i, l) {
				return i
			}
		}
		for i, l := range o.Logs {
			if i < upto && pred(i, l) {
				return i
			}
		}
		return -1
	}
	for _, m := range o.Msgs {
		if m.Topic != m.Type {
			out = append(out, Finding{"event-on-wrong-topic:" + m.Type, fmt.Sprintf("a %s event was published under the topic %q", m.Type, m.Topic)})
		}
		switch m.Type {
		case "COMMITTED_TRANSACTIONS":
			var p struct {
				Transactions    []json.RawMessage            `json:"transactions"`
				AccountMetadata map[string]map[string]string `json:"accountMetadata"`
			}
			_ = json.Unmarshal(m.Payload, &p)
			for _, raw := range p.Transactions {
				var tx ledger.Transaction
				if err := json.Unmarshal(raw, &tx); err != nil || tx.ID == nil {
					out = append(out, Finding{"event-unreadable:" + m.Type, string(raw)})
					continue
				}
				i := find(func(i int, l *ledger.ChainedLog) bool {
					d, ok := l.Data.(ledger.NewTransactionLogPayload)
					return ok && d.Transaction.ID.Cmp(tx.ID) == 0 && !published[i]
				}, m.LogsAtPublish)
				if i < 0 {
					i = find(func(i int, l *ledger.ChainedLog) bool {
						d, ok := l.Data.(ledger.NewTransactionLogPayload)
						return ok && d.Transaction.ID.Cmp(tx.ID) == 0
					}, m.LogsAtPublish)
				}
				if i < 0 {
					out = append(out, Finding{"event-without-persisted-log:" + m.Type, fmt.Sprintf("event for transaction %s published at step %d; no NEW_TRANSACTION entry with that id was persisted at that time (%d entries)", tx.ID, m.Step, m.LogsAtPublish)})
					continue
				}
				published[i] = true
				if d := sameTx(txJ(&tx), logTx(o.Logs[i])); d != "" {
					out = append(out, Finding{"event-content-differs:" + m.Type, d})
				}
				// the account metadata the script wrote is part of the entry, hence of the event
				if d, ok := o.Logs[i].Data.(ledger.NewTransactionLogPayload); ok && len(p.Transactions) == 1 {
					want := map[string]map[string]string{}
					for a, md := range d.AccountMetadata {
						if len(md) > 0 {
							want[a] = map[string]string{}
							for k, v := range md {
								want[a][k] = v
							}
						}
					}
					got := map[string]map[string]string{}
					for a, md := range p.AccountMetadata {
						if len(md) > 0 {
							got[a] = md
						}
					}
					if !reflect.DeepEqual(want, got) {
						out = append(out, Finding{"event-content-differs:" + m.Type + ":account-metadata", fmt.Sprintf("transaction %s: the entry carries account metadata %v, the event %v", tx.ID, want, got)})
					}
				}
			}
		case "REVERTED_TRANSACTION":
			var p struct {
				Reverted ledger.Transaction `json:"revertedTransaction"`
				Revert   ledger.Transaction `json:"revertTransaction"`
			}
			if err := json.Unmarshal(m.Payload, &p); err != nil || p.Reverted.ID == nil || p.Revert.ID == nil {
				out = append(out, Finding{"event-unreadable:" + m.Type, string(m.Payload)})
				continue
			}
			i := find(func(i int, l *ledger.ChainedLog) bool {
				d, ok := l.Data.(ledger.RevertedTransactionLogPayload)
				return ok && d.RevertedTransactionID.Cmp(p.Reverted.ID) == 0 && d.RevertTransaction.ID.Cmp(p.Revert.ID) == 0
			}, m.LogsAtPublish)
			if i < 0 {
				sw := find(func(i int, l *ledger.ChainedLog) bool {
					d, ok := l.Data.(ledger.RevertedTransactionLogPayload)
					return ok && d.RevertedTransactionID.Cmp(p.Revert.ID) == 0 && d.RevertTransaction.ID.Cmp(p.Reverted.ID) == 0
				}, m.LogsAtPublish)
				if sw >= 0 {
					published[sw] = true
					out = append(out, Finding{"reverted-event-swapped", fmt.Sprintf("event says revertedTransaction=%s revertTransaction=%s; the log entry says transaction %s was reverted by %s", p.Reverted.ID, p.Revert.ID, p.Revert.ID, p.Reverted.ID)})
				} else {
					out = append(out, Finding{"event-without-persisted-log:" + m.Type, fmt.Sprintf("reverted=%s revert=%s published at step %d", p.Reverted.ID, p.Revert.ID, m.Step)})
				}
				continue
			}
			published[i] = true
			if d := sameTx(txJ(&p.Revert), logTx(o.Logs[i])); d != "" {
				out = append(out, Finding{"event-content-differs:" + m.Type, d})
			}
			// ... and the transaction that was reverted is the one the log holds under that id
			if j := find(func(j int, l *ledger.ChainedLog) bool {
				t := logTx(l)
				return t != nil && t.ID.Cmp(p.Reverted.ID) == 0
			}, m.LogsAtPublish); j >= 0 {
				// (its metadata may have been changed since by metadata writes: what the entry fixed is compared)
				ev, lg := txJ(&p.Reverted), txJ(logTx(o.Logs[j]))
				ev.Metadata, lg.Metadata = nil, nil
				if !reflect.DeepEqual(ev, lg) {
					out = append(out, Finding{"event-content-differs:" + m.Type + ":reverted-transaction", fmt.Sprintf("event %+v, log entry %+v", *ev, *lg)})
				}
			}
		case "SAVED_METADATA":
			var p struct {
				TargetType string            `json:"targetType"`
				TargetID   string            `json:"targetId"`
				Metadata   map[string]string `json:"metadata"`
			}
			_ = json.Unmarshal(m.Payload, &p)
			i := find(func(i int, l *ledger.ChainedLog) bool {
				d, ok := l.Data.(ledger.SetMetadataLogPayload)
				if !ok || d.TargetType != p.TargetType || idKey(d.TargetID) != p.TargetID {
					return false
				}
				mm := map[string]string{}
				for k, v := range d.Metadata {
					mm[k] = v
				}
				return reflect.DeepEqual(mm, p.Metadata) || (len(mm) == 0 && len(p.Metadata) == 0)
			}, m.LogsAtPublish)
			if i < 0 {
				out = append(out, Finding{"event-without-persisted-log:" + m.Type, fmt.Sprintf("%s %s %v published at step %d", p.TargetType, p.TargetID, p.Metadata, m.Step)})
				continue
			}
			published[i] = true
		case "DELETED_METADATA":
			var p struct {
				TargetType string `json:"targetType"`
				TargetID   any    `json:"targetId"`
				Key        string `json:"key"`
			}
			dec := json.NewDecoder(bytes.NewReader(m.Payload))
			dec.UseNumber()
			_ = dec.Decode(&p)
			i := find(func(i int, l *ledger.ChainedLog) bool {
				d, ok := l.Data.(ledger.DeleteMetadataLogPayload)
				return ok && d.TargetType == p.TargetType && idKey(d.TargetID) == fmt.Sprint(p.TargetID) && d.Key == p.Key
			}, m.LogsAtPublish)
			if i < 0 {
				out = append(out, Finding{"event-without-persisted-log:" + m.Type, fmt.Sprintf("%s %v key %s published at step %d", p.TargetType, p.TargetID, p.Key, m.Step)})
				continue
			}
			published[i] = true
		default:
			out = append(out, Finding{"unknown-event-type:" + m.Type, string(m.Payload)})
		}
	}
	if o.DeathFree {
		// every persisted change is published at least once (by quiescence every request has returned)
		for i, l := range o.Logs {
			if !published[i] {
				out = append(out, Finding{"persisted-change-not-published:" + logKind(l), fmt.Sprintf("log %d (%s, request %s) was persisted but no event describes it", i, l.Type, logTag(l))})
			}
		}
	}
	return out
}

func sortedKeys(m map[string]int) []string {
	ks := make([]string, 0, len(m))
	for k := range m {
		ks = append(ks, k)
	}
	sort.Strings(ks)
	return ks
}
