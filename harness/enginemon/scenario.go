package main

import (
	"errors"
	"context"
	"fmt"
	"math/big"
	"strings"
	"sync"
	"sync/atomic"
	"time"

	"github.com/formancehq/ledger/internal/verifhook"
	vc "github.com/formancehq/ledger/internal/verif/vcommon"
)

// ------------------------------------------------------------------------------------------------ op builders

type opGen struct {
	r *vc.Rand
	n int
}

func (g *opGen) tag() string { g.n++; return fmt.Sprintf("t%d", g.n) }

const asset = "USD"

func sendScript(src, dst string, amt int64, od string) string {
	s := "@" + src
	if src == "world" {
		od = ""
	}
	switch {
	case od == "unbounded":
		s += " allowing unbounded overdraft"
	case od != "":
		s += " allowing overdraft up to [" + asset + " " + od + "]"
	}
	return fmt.Sprintf("send [%s %d] (\n\tsource = %s\n\tdestination = @%s\n)\n", asset, amt, s, dst)
}

// send: naming = literal | variable | meta (source looked up in the metadata of account "cfg", key "src_<src>")
func (g *opGen) send(src, dst string, amt int64, od, naming string) Op {
	t := g.tag()
	op := Op{Kind: "script", Tag: t, Meta: map[string]string{"req": t}}
	if od != "" && src != "world" {
		op.Overdraft = map[string]string{src: od}
	}
	odc := ""
	switch {
	case od == "unbounded":
		odc = " allowing unbounded overdraft"
	case od != "":
		odc = " allowing overdraft up to [" + asset + " " + od + "]"
	}
	switch naming {
	case "variable":
		op.Plain = fmt.Sprintf("vars {\n\taccount $src\n\taccount $dst\n}\nsend [%s %d] (\n\tsource = $src%s\n\tdestination = $dst\n)\n", asset, amt, odc)
		op.Vars = map[string]string{"src": src, "dst": dst}
	case "meta":
		op.Plain = fmt.Sprintf("vars {\n\taccount $src = meta(@cfg, \"src_%s\")\n}\nsend [%s %d] (\n\tsource = $src%s\n\tdestination = @%s\n)\n", strings.ReplaceAll(src, ":", "_"), asset, amt, odc, dst)
	default:
		op.Plain = sendScript(src, dst, amt, od)
	}
	return op
}

// template: a client-side script template - accounts and amount are all variables, the text never changes.
func (g *opGen) template(primary, backup, dst string, amt int64) Op {
	t := g.tag()
	op := Op{Kind: "script", Tag: t, Meta: map[string]string{"req": t}}
	op.Plain = "vars {\n\taccount $primary\n\taccount $backup\n\taccount $dst\n\tmonetary $amt\n}\nsend $amt (\n\tsource = {\n\t\t$primary\n\t\t$backup\n\t}\n\tdestination = $dst\n)\n"
	op.Vars = map[string]string{"primary": primary, "backup": backup, "dst": dst, "amt": fmt.Sprintf("%s %d", asset, amt)}
	return op
}

func (g *opGen) fund(acc string, amt int64) Op { return g.send("world", acc, amt, "", "literal") }

func (g *opGen) postings(ps ...PostingJ) Op {
	t := g.tag()
	return Op{Kind: "postings", Tag: t, Postings: ps, Meta: map[string]string{"req": t}}
}

func (g *opGen) revert(txid string, force bool) Op {
	return Op{Kind: "revert", Tag: "rv:" + txid, TxID: txid, Force: force}
}

func (g *opGen) saveMetaAcc(acc string, kv map[string]string) Op {
	t := g.tag()
	m := map[string]string{"req": t}
	for k, v := range kv {
		m[k] = v
	}
	return Op{Kind: "savemeta", Tag: t, TargetType: "ACCOUNT", TargetID: acc, Meta: m}
}

// saveMetaEmpty: a set-metadata write with no key at all; the entry is attributed through its (unique) target account.
func (g *opGen) saveMetaEmpty() Op {
	t := "tagged:" + g.tag()
	return Op{Kind: "savemeta", Tag: t, TargetType: "ACCOUNT", TargetID: t, Meta: map[string]string{}}
}

func (g *opGen) saveMetaTx(txid string) Op {
	t := g.tag()
	return Op{Kind: "savemeta", Tag: t, TargetType: "TRANSACTION", TargetID: txid, Meta: map[string]string{"req": t, "note": "n" + t}}
}

func (g *opGen) delMetaAcc(acc string) Op {
	t := g.tag()
	return Op{Kind: "delmeta", Tag: t, TargetType: "ACCOUNT", TargetID: acc, Key: t}
}

func (g *opGen) delMetaTx(txid string) Op {
	t := g.tag()
	return Op{Kind: "delmeta", Tag: t, TargetType: "TRANSACTION", TargetID: txid, Key: t}
}

func P(src, dst string, amt int64) PostingJ {
	return PostingJ{Source: src, Destination: dst, Amount: big.NewInt(amt).String(), Asset: asset}
}

// ------------------------------------------------------------------------------------------------ scenario

type Phase struct {
	Clients    []ClientPlan
	DieAt      int // decision index at which the generation is killed (-1 = runs to completion)
	FailInsert int // n-th InsertLogs call of this generation fails (0 = none)
	FailRead   string // "Method:k": the k-th call of that store read method in this generation fails once (transient fault)
	WorkerW    int
	Hold       []string
}

type Scenario struct {
	Kind   string
	Phases []Phase
}

type ScenarioRun struct {
	Env       *Env
	Obs       *Observed
	Scheds    []*Scheduler
	Stalled   string
	InitErr   string
	Deaths    int
	Decisions []int
}

func planJSON(sc *Scenario) any {
	type ph struct {
		Clients    []ClientPlan `json:"clients"`
		DieAt      int          `json:"die_at_decision"`
		FailInsert int          `json:"fail_insert_call,omitempty"`
		FailRead   string       `json:"fail_read_call,omitempty"`
	}
	var out []ph
	for _, p := range sc.Phases {
		out = append(out, ph{p.Clients, p.DieAt, p.FailInsert, p.FailRead})
	}
	return out
}

// runControlled executes the scenario: one generation per phase on the same store.
func runControlled(sc *Scenario, seed uint64) *ScenarioRun {
	env := NewEnv()
	run := &ScenarioRun{Env: env}
	sr := vc.NewRand(seed)
	deathFree := true
	for pi, ph := range sc.Phases {
		s := NewScheduler(sr.Fork())
		s.DieAt = ph.DieAt
		if ph.WorkerW > 0 {
			s.WorkerW = ph.WorkerW
		}
		for _, h := range ph.Hold {
			s.Hold[h] = true
		}
		env.store.mu.Lock()
		env.store.insertCalls = 0
		env.store.FailInsert = ph.FailInsert
		env.store.mu.Unlock()
		env.store.ReadFault = readFaultFor(ph.FailRead)
		res := env.RunPhaseControlled(s, ph.Clients)
		run.Scheds = append(run.Scheds, s)
		run.Decisions = append(run.Decisions, s.Decision)
		if res.InitErr != "" {
			run.InitErr = fmt.Sprintf("phase %d: %s", pi, res.InitErr)
			break
		}
		if res.Died {
			run.Deaths++
			deathFree = false
		}
		if ph.FailInsert > 0 {
			deathFree = false
		}
		if res.Stalled != "" {
			run.Stalled = fmt.Sprintf("phase %d: %s", pi, res.Stalled)
			break
		}
	}
	run.Obs = env.Observe(deathFree)
	return run
}

var errInjectedRead = errors.New("injected read failure")

// readFaultFor: "Method:k" -> the k-th call of Method fails, once.
func readFaultFor(spec string) func(string) error {
	if spec == "" {
		return nil
	}
	var method string
	var k int
	if i := strings.LastIndex(spec, ":"); i > 0 {
		method = spec[:i]
		fmt.Sscanf(spec[i+1:], "%d", &k)
	}
	var n atomic.Int64
	return func(m string) error {
		if m == method && n.Add(1) == int64(k) {
			return errInjectedRead
		}
		return nil
	}
}

func runFree(sc *Scenario, seed uint64) *ScenarioRun {
	env := NewEnv()
	run := &ScenarioRun{Env: env}
	for pi, ph := range sc.Phases {
		env.store.ReadFault = readFaultFor(ph.FailRead)
		if st := env.RunPhaseFree(seed+uint64(pi), ph.Clients, 20*time.Second); st != "" {
			run.Stalled = fmt.Sprintf("phase %d: %s", pi, st)
			break
		}
	}
	run.Obs = env.Observe(true)
	return run
}

// ------------------------------------------------------------------------------------------------ generators

var accts = []string{"alice", "bob", "carol"}

func setupPhase(ops ...Op) Phase {
	return Phase{Clients: []ClientPlan{{Name: "setup", Ops: ops}}, DieAt: -1}
}

// mixedOps: writes of all four kinds that mostly succeed (C05 / C06 / C16 workloads).
func (g *opGen) mixedOp(nSetupTx int, allowDry bool) Op {
	r := g.r
	var op Op
	switch r.Intn(9) {
	case 0, 1, 2:
		op = g.send(vc.Pick(r, accts), vc.Pick(r, accts), int64(r.Range(1, 30)), "unbounded", vc.Pick(r, []string{"literal", "variable"}))
	case 3:
		op = g.send(vc.Pick(r, accts), vc.Pick(r, accts), int64(r.Range(50, 200)), "", "literal") // may lack funds
	case 4:
		op = g.postings(P("world", vc.Pick(r, accts), int64(r.Range(1, 50))), P(vc.Pick(r, accts), "world", int64(r.Range(0, 5))))
	case 5:
		op = g.saveMetaAcc(vc.Pick(r, accts), map[string]string{"k": fmt.Sprint(r.Intn(100))})
	case 6:
		if nSetupTx > 0 {
			op = g.saveMetaTx(fmt.Sprint(r.Intn(nSetupTx)))
		} else {
			op = g.saveMetaAcc(vc.Pick(r, accts), nil)
		}
	case 7:
		if r.Bool() || nSetupTx == 0 {
			op = g.delMetaAcc(vc.Pick(r, accts))
		} else {
			op = g.delMetaTx(fmt.Sprint(r.Intn(nSetupTx)))
		}
	case 8:
		if nSetupTx > 0 {
			op = g.revert(fmt.Sprint(r.Intn(nSetupTx)), r.Bool())
		} else {
			op = g.fund(vc.Pick(r, accts), 10)
		}
	}
	if allowDry && r.Chance(1, 6) {
		op.DryRun = true
	}
	if r.Chance(1, 6) {
		op.CancelAt = r.Range(1, 14) // the client gives up somewhere along the way
	}
	return op
}

func (g *opGen) clients(n, maxOps int, mk func() Op) []ClientPlan {
	var out []ClientPlan
	for c := 0; c < n; c++ {
		p := ClientPlan{Name: fmt.Sprintf("c%d", c+1)}
		for k := g.r.Range(1, maxOps); k > 0; k-- {
			p.Ops = append(p.Ops, mk())
		}
		out = append(out, p)
	}
	return out
}

// genChainScenario (C05): setup (possibly metadata only), then 1-3 generations of concurrent mixed writers.
func genChainScenario(r *vc.Rand) *Scenario {
	g := &opGen{r: r}
	sc := &Scenario{Kind: "chain"}
	nTx := 0
	var setup []Op
	if r.Chance(1, 4) { // a ledger holding logs but no transaction yet
		for k := r.Range(1, 3); k > 0; k-- {
			setup = append(setup, g.saveMetaAcc(vc.Pick(r, accts), map[string]string{"k": "v"}))
		}
	} else {
		for k := r.Range(1, 3); k > 0; k-- {
			setup = append(setup, g.fund(vc.Pick(r, accts), int64(r.Range(50, 200))))
			nTx++
		}
		if r.Bool() {
			setup = append(setup, g.saveMetaAcc(vc.Pick(r, accts), nil))
		}
	}
	sc.Phases = append(sc.Phases, setupPhase(setup...))
	nPh := r.Range(1, 3)
	for p := 0; p < nPh; p++ {
		ph := Phase{Clients: g.clients(r.Range(2, 5), 3, func() Op {
			op := g.mixedOp(nTx, true)
			if r.Chance(1, 5) && !op.DryRun { // the key is part of the chained content, for every kind of entry
				op.IK = "ik-" + op.Tag
			}
			return op
		}), DieAt: -1, WorkerW: vc.Pick(r, []int{1, 1, 4})}
		if p < nPh-1 && r.Bool() {
			ph.DieAt = r.Intn(40)
		}
		sc.Phases = append(sc.Phases, ph)
	}
	return sc
}

// ------------------------------------------------------------------------------------------------ C02

// genContention: hot accounts funded just enough for a subset of the concurrent requests; sources are designated
// literally, by variable and through meta(); reverts and posting-mode requests are mixed in.
func genContention(r *vc.Rand) *Scenario {
	g := &opGen{r: r}
	sc := &Scenario{Kind: "contention"}
	hot := accts[:r.Range(1, 2)]
	fundAmt := int64(vc.Pick(r, []int{100, 100, 150, 60}))
	var setup []Op
	for _, a := range hot {
		setup = append(setup, g.fund(a, fundAmt)) // tx ids 0..len(hot)-1
	}
	cfg := map[string]string{}
	for _, a := range accts {
		cfg["src_"+a] = a
	}
	setup = append(setup, g.saveMetaAcc("cfg", cfg))
	if r.Bool() { // the template has been used before, with other bindings (the compiled program is cached by text)
		setup = append(setup, g.template(vc.Pick(r, []string{"world", "spare0", "world"}), vc.Pick(r, []string{"spare1", "world"}), "sink0", 5))
	}
	sc.Phases = append(sc.Phases, setupPhase(setup...))
	mk := func() Op {
		src := vc.Pick(r, hot)
		amt := int64(vc.Pick(r, []int{40, 60, 80, 100, 100, 30}))
		if amt > fundAmt {
			amt = fundAmt
		}
		if r.Chance(1, 8) {
			// the same source named twice through different resources (literal + variable, or two variables)
			t := g.tag()
			op := Op{Kind: "script", Tag: t, Meta: map[string]string{"req": t}, Vars: map[string]string{"one": src, "two": src}}
			first := vc.Pick(r, []string{"@" + src, "$one"})
			op.Plain = fmt.Sprintf("vars {\n\taccount $one\n\taccount $two\n}\nsend [%s %d] (\n\tsource = {\n\t\tmax [%s %d] from %s\n\t\t$two\n\t}\n\tdestination = @sink\n)\n", asset, amt, asset, amt/2, first)
			return op
		}
		if r.Chance(1, 6) {
			return g.template(src, fmt.Sprintf("spare%d", r.Intn(4)), fmt.Sprintf("sink%d", r.Intn(3)), amt)
		}
		if r.Chance(1, 8) {
			// a spender that may overdraw without limit (its own postings are not judged) racing with plain spenders of the same
			// account: it still has to exclude them while its entry is in flight
			if r.Bool() {
				return g.send(src, "sink", amt, "unbounded", vc.Pick(r, []string{"literal", "variable"}))
			}
			for i, a := range hot {
				if a == src {
					return g.revert(fmt.Sprint(i), true)
				}
			}
		}
		switch r.Intn(10) {
		case 0, 1:
			return g.send(src, "sink", amt, "", "literal")
		case 2, 3:
			return g.send(src, "sink", amt, "", "variable")
		case 4, 5, 6:
			return g.send(src, "sink", amt, "", "meta")
		case 7:
			return g.send(src, "sink", amt, vc.Pick(r, []string{"20", "50"}), vc.Pick(r, []string{"literal", "meta"}))
		case 8:
			return g.postings(P(src, "sink", amt))
		default:
			// unforced revert of the funding transaction takes the funds back out of the hot account
			for i, a := range hot {
				if a == src {
					return g.revert(fmt.Sprint(i), false)
				}
			}
			return g.send(src, "sink", amt, "", "literal")
		}
	}
	mkc := func() Op {
		op := mk()
		if op.Kind != "revert" && r.Chance(1, 8) {
			op.DryRun = true // a preview takes (and must give back exactly) the same locks
		}
		if r.Chance(1, 5) {
			op.CancelAt = r.Range(1, 16) // the client gives up somewhere between reservation and acknowledgement
		}
		return op
	}
	ph := Phase{Clients: g.clients(r.Range(2, 6), 2, mkc), DieAt: -1, WorkerW: vc.Pick(r, []int{1, 1, 2, 4})}
	sc.Phases = append(sc.Phases, ph)
	return sc
}

// ------------------------------------------------------------------------------------------------ C07

func genIdempotency(r *vc.Rand) *Scenario {
	g := &opGen{r: r}
	sc := &Scenario{Kind: "idempotency"}
	sc.Phases = append(sc.Phases, setupPhase(g.fund("alice", 500), g.fund("bob", 500)))
	nKeys := r.Range(1, 2)
	type dup struct {
		op Op
		n  int
	}
	var dups []dup
	for k := 0; k < nKeys; k++ {
		var op Op
		switch r.Intn(6) {
		case 0, 1, 2:
			op = g.send(vc.Pick(r, accts[:2]), "sink", int64(r.Range(1, 50)), "", vc.Pick(r, []string{"literal", "variable"}))
		case 3:
			op = g.revert(fmt.Sprint(r.Intn(2)), r.Bool())
		case 4:
			op = g.saveMetaAcc(vc.Pick(r, accts), map[string]string{"v": "1"})
		case 5:
			op = g.delMetaAcc(vc.Pick(r, accts))
		}
		if r.Chance(1, 5) { // the key travels in the Idempotency-Key header of an HTTP request, next to other options
			op = g.postings(P(vc.Pick(r, accts[:2]), "sink", int64(r.Range(1, 50))))
			op.Via = vc.Pick(r, []string{"v2", "v2", "v1"})
			op.PreviewParam = vc.Pick(r, []string{"", "false", "0", "no", "False"})
		}
		op.IK = fmt.Sprintf("key-%d-%d", k, r.Intn(1000))
		switch r.Intn(6) { // keys are opaque client strings: long ones, and ones differing only far from the start
		case 0:
			op.IK += strings.Repeat("k", r.Range(240, 300))
		case 1:
			op.IK = strings.Repeat("x", 255) + op.IK
		case 2:
			op.IK += " é/?&=" + strings.Repeat("\u00e9", r.Intn(140))
		}
		dups = append(dups, dup{op, r.Range(2, 6)})
	}
	// spread the attempts over clients (concurrent) and over positions inside a client (sequential)
	nClients := r.Range(2, 4)
	plans := make([]ClientPlan, nClients)
	for c := range plans {
		plans[c].Name = fmt.Sprintf("c%d", c+1)
	}
	attempt := 0
	var retry []Op
	for _, d := range dups {
		for a := 0; a < d.n; a++ {
			op := d.op
			attempt++
			op.Attempt = attempt
			if a > 0 && r.Chance(1, 6) {
				// the key comes back with another kind of write (a client bug, or a key that is too coarse): whatever the
				// answer - an error, or as the code stands a crash of the request - nothing more may take effect under the key
				// (another kind = another kind of log entry: a script and a posting list both produce a transaction entry, and
				// the second of those is legitimately answered with the first one's transaction)
				var x Op
				switch d.op.Kind {
				case "script", "postings":
					if r.Bool() {
						x = g.saveMetaAcc(vc.Pick(r, accts), map[string]string{"x": "1"})
					} else {
						x = g.delMetaAcc(vc.Pick(r, accts))
					}
				case "savemeta":
					if r.Bool() {
						x = g.delMetaAcc(vc.Pick(r, accts))
					} else {
						x = g.send("alice", "sink", 1, "", "literal")
					}
				case "delmeta":
					if r.Bool() {
						x = g.saveMetaAcc(vc.Pick(r, accts), map[string]string{"x": "1"})
					} else {
						x = g.send("alice", "sink", 1, "", "literal")
					}
				default: // revert
					x = g.saveMetaAcc(vc.Pick(r, accts), map[string]string{"x": "1"})
				}
				x.IK, x.Attempt = d.op.IK, attempt
				op = x
			}
			if a > 0 && r.Chance(1, 4) {
				retry = append(retry, op) // issued after a restart
				continue
			}
			c := r.Intn(nClients)
			if r.Chance(1, 6) {
				op.CancelAt = r.Range(1, 16)
			}
			plans[c].Ops = append(plans[c].Ops, op)
		}
	}
	for c := range plans {
		if r.Chance(1, 3) {
			plans[c].Ops = append(plans[c].Ops, g.mixedOp(2, false))
		}
	}
	var cl []ClientPlan
	for _, p := range plans {
		if len(p.Ops) > 0 {
			cl = append(cl, p)
		}
	}
	ph := Phase{Clients: cl, DieAt: -1, WorkerW: vc.Pick(r, []int{1, 1, 3})}
	if len(retry) > 0 {
		if r.Bool() {
			ph.DieAt = r.Intn(45)
		}
		rp := Phase{Clients: []ClientPlan{{Name: "retry", Ops: retry}}, DieAt: -1}
		if r.Chance(1, 4) { // the key lookup of a retry meets a transient store error: the retry must fail, not run again
			rp.FailRead = fmt.Sprintf("ReadLogWithIdempotencyKey:%d", r.Range(1, len(retry)))
		}
		sc.Phases = append(sc.Phases, ph, rp)
	} else {
		if r.Chance(1, 6) {
			ph.FailRead = fmt.Sprintf("ReadLogWithIdempotencyKey:%d", r.Range(1, 4))
		}
		sc.Phases = append(sc.Phases, ph)
	}
	return sc
}

// ------------------------------------------------------------------------------------------------ C11

func genReferences(r *vc.Rand) *Scenario {
	g := &opGen{r: r}
	sc := &Scenario{Kind: "references"}
	ref := fmt.Sprintf("ref-%d", r.Intn(1000))
	switch r.Intn(10) { // a reference is an opaque client string
	case 0:
		ref += " "
	case 1:
		ref = " " + ref
	case 2:
		ref = vc.Pick(r, []string{" ", "  ", "\t", "a b", "É/é?&=", strings.Repeat("r", 300)})
	}
	setup := []Op{g.fund("alice", 200), g.fund("bob", 30)}
	carrier := r.Chance(1, 3) // the reference is already carried by a committed transaction (id 2), possibly reverted since
	if carrier {
		op := g.send("alice", "sink", 5, "", "literal")
		op.Reference = ref
		setup = append(setup, op)
		if r.Bool() {
			setup = append(setup, g.revert("2", r.Bool()))
		}
	}
	sc.Phases = append(sc.Phases, setupPhase(setup...))
	n := r.Range(2, 6)
	nClients := r.Range(2, 5)
	plans := make([]ClientPlan, nClients)
	for c := range plans {
		plans[c].Name = fmt.Sprintf("c%d", c+1)
	}
	for k := 0; k < n; k++ {
		var op Op
		switch r.Intn(5) {
		case 0:
			op = g.send("bob", "sink", int64(r.Range(40, 90)), "", "literal") // fails: insufficient funds
		case 1:
			op = g.postings(P("alice", "sink", int64(r.Range(1, 20))))
		default:
			op = g.send("alice", "sink", int64(r.Range(1, 20)), "", vc.Pick(r, []string{"literal", "variable"}))
		}
		op.Reference = ref
		if r.Chance(1, 8) {
			op.Reference = ref + "-other"
		}
		if r.Chance(1, 6) { // a preview carrying the contested reference
			op.DryRun = true
		}
		if r.Chance(1, 5) {
			op.CancelAt = r.Range(1, 16)
		}
		c := r.Intn(nClients)
		plans[c].Ops = append(plans[c].Ops, op)
	}
	if carrier && r.Chance(1, 3) { // the carrier is reverted while others try to take its reference
		c := r.Intn(nClients)
		plans[c].Ops = append([]Op{g.revert("2", true)}, plans[c].Ops...)
	}
	var cl []ClientPlan
	for _, p := range plans {
		if len(p.Ops) > 0 {
			cl = append(cl, p)
		}
	}
	sc.Phases = append(sc.Phases, Phase{Clients: cl, DieAt: -1, WorkerW: vc.Pick(r, []int{1, 1, 1, 4})})
	if r.Chance(1, 3) { // a later attempt, after everything settled (and after a restart)
		op := g.send("alice", "sink", 1, "", "literal")
		op.Reference = ref
		lp := Phase{Clients: []ClientPlan{{Name: "late", Ops: []Op{op}}}, DieAt: -1}
		if r.Chance(1, 3) { // the reference lookup meets a transient store error: the request must fail, not commit
			lp.FailRead = "GetTransactionByReference:1"
		}
		sc.Phases = append(sc.Phases, lp)
	}
	return sc
}

// ------------------------------------------------------------------------------------------------ C10

func genReverts(r *vc.Rand) *Scenario {
	g := &opGen{r: r}
	sc := &Scenario{Kind: "reverts"}
	// originals: tx 0 funds alice; tx 1..k are multi-posting transactions
	setup := []Op{g.fund("alice", 1000)}
	multi := r.Chance(1, 2) // originals in several assets, with repeated and zero amounts
	if multi {
		op := Op{Kind: "script", Tag: g.tag(), Plain: "send [EUR/2 1000] (\n\tsource = @world\n\tdestination = @alice\n)\nsend [COIN 1000] (\n\tsource = @world\n\tdestination = @alice\n)\n"}
		op.Meta = map[string]string{"req": op.Tag}
		setup = append(setup, op)
	}
	nOrig := r.Range(1, 3)
	for k := 0; k < nOrig; k++ {
		var ps []PostingJ
		np := r.Range(1, 6)
		cur := "alice"
		amt := int64(r.Range(1, 40))
		for j := 0; j < np; j++ {
			dst := vc.Pick(r, []string{"bob", "carol", "dave", "world", "bob"})
			if !multi || r.Chance(1, 2) {
				amt = int64(r.Range(1, 40))
			}
			if multi && r.Chance(1, 8) {
				amt = 0
			}
			src := "alice"
			if r.Chance(1, 3) { // chain: spend what the previous posting delivered
				src = cur
				if dst != "world" {
					cur = dst
				}
			}
			q := P(src, dst, amt)
			if multi {
				q.Asset = vc.Pick(r, []string{"USD", "EUR/2", "COIN"})
				if src != "alice" && q.Asset != ps[len(ps)-1].Asset {
					q.Source = "alice" // a chain only continues in the asset that was delivered
				}
			}
			ps = append(ps, q)
		}
		if multi && r.Bool() { // the same transaction written as a script (no postings-to-script translation on the way in)
			var sb strings.Builder
			for _, q := range ps {
				fmt.Fprintf(&sb, "send [%s %s] (\n\tsource = @%s\n\tdestination = @%s\n)\n", q.Asset, q.Amount, q.Source, q.Destination)
			}
			op := Op{Kind: "script", Tag: g.tag(), Plain: sb.String()}
			op.Meta = map[string]string{"req": op.Tag}
			setup = append(setup, op)
			continue
		}
		setup = append(setup, g.postings(ps...))
	}
	moved := false
	if r.Chance(1, 3) { // the funds move on, so an unforced revert must be refused
		setup = append(setup, g.send("bob", "elsewhere", 1, "unbounded", "literal"))
		op := Op{Kind: "script", Tag: g.tag(), Plain: "send [USD *] (\n\tsource = @bob\n\tdestination = @elsewhere\n)\n"}
		op.Meta = map[string]string{"req": op.Tag}
		setup = append(setup, op)
		moved = true
	}
	_ = moved
	sc.Phases = append(sc.Phases, setupPhase(setup...))
	nClients := r.Range(2, 5)
	mk := func() Op {
		id := fmt.Sprint(r.Range(0, nOrig))
		if multi {
			id = fmt.Sprint(r.Range(1, nOrig+1))
		}
		if r.Chance(1, 10) {
			id = "99" // unknown transaction
		}
		op := g.revert(id, r.Chance(1, 3))
		if r.Chance(1, 6) {
			op.DryRun = true // a preview of a revert, racing with real ones
		}
		if r.Chance(1, 6) {
			op.CancelAt = r.Range(1, 16)
		}
		return op
	}
	sc.Phases = append(sc.Phases, Phase{Clients: g.clients(nClients, 2, mk), DieAt: -1, WorkerW: vc.Pick(r, []int{1, 1, 3})})
	if r.Bool() { // later, sequential attempts on the same targets (forced and unforced), after a restart
		var ops []Op
		for k := r.Range(1, 3); k > 0; k-- {
			ops = append(ops, g.revert(fmt.Sprint(r.Range(0, nOrig+1)), r.Bool()))
		}
		lp := Phase{Clients: []ClientPlan{{Name: "later", Ops: ops}}, DieAt: -1}
		if r.Chance(1, 3) { // reading the target meets a transient store error: that attempt must fail without effect
			lp.FailRead = "GetTransaction:1"
		}
		sc.Phases = append(sc.Phases, lp)
	}
	return sc
}

// ------------------------------------------------------------------------------------------------ C09

var c09Accounts = []string{"world", "alice", "bob", "users:001", "bank-eu:fees", "a_b", "X", "0", "World", "WORLD", "worlds", "world:1"}
var c09Assets = []string{"USD", "EUR/2", "COIN", "A0/123456", "BTC/8"}

func genPostingMode(r *vc.Rand) *Scenario {
	g := &opGen{r: r}
	sc := &Scenario{Kind: "posting-mode"}
	var setup []Op
	rich := r.Chance(1, 2) // every account holds plenty of every asset: most requests are accepted
	for _, a := range c09Accounts[1:] {
		if rich {
			var ps []PostingJ
			for _, as := range c09Assets {
				ps = append(ps, PostingJ{"world", a, "5000", as})
			}
			setup = append(setup, g.postings(ps...))
		} else if r.Bool() {
			op := g.postings(PostingJ{"world", a, big.NewInt(int64(r.Intn(300))).String(), vc.Pick(r, c09Assets[:2])})
			setup = append(setup, op)
		}
	}
	if len(setup) == 0 {
		setup = append(setup, g.fund("alice", 100))
	}
	sc.Phases = append(sc.Phases, setupPhase(setup...))
	big64, _ := new(big.Int).SetString("18446744073709551616", 10)
	mk := func() Op {
		n := r.Range(1, 12)
		var ps []PostingJ
		as := vc.Pick(r, c09Assets)
		if r.Chance(1, 8) { // fan-out / collection over many distinct accounts
			n = r.Range(9, 16)
			hub := vc.Pick(r, []string{"world", "world", "alice"})
			fanOut := r.Bool()
			for k := 0; k < n; k++ {
				leaf := fmt.Sprintf("leaf:%03d", k+r.Intn(2)*20)
				q := PostingJ{hub, leaf, fmt.Sprint(k + 1), as}
				if !fanOut && hub == "world" {
					q = PostingJ{leaf, "world", "0", as}
				} else if !fanOut {
					q = PostingJ{leaf, hub, "0", as}
				}
				ps = append(ps, q)
			}
			op := g.postings(ps...)
			op.Via = vc.Pick(r, []string{"", "", "v2", "v1", "bulk"})
			return op
		}
		for k := 0; k < n; k++ {
			if r.Chance(1, 4) {
				as = vc.Pick(r, c09Assets)
			}
			amt := big.NewInt(int64(vc.Pick(r, []int{0, 1, 1, 5, 5, 10, 100, 250})))
			if k > 0 && r.Chance(1, 3) { // the same amount again, often in another asset
				amt, _ = new(big.Int).SetString(ps[k-1].Amount, 10)
				as = vc.Pick(r, c09Assets)
			}
			switch r.Intn(12) {
			case 0:
				amt = new(big.Int).Add(big64, big.NewInt(int64(vc.Pick(r, []int{0, 1, 5, 5}))))
			case 1:
				amt = new(big.Int).Lsh(big.NewInt(1), 100)
			}
			src := vc.Pick(r, c09Accounts)
			dst := vc.Pick(r, c09Accounts)
			if k > 0 && r.Chance(1, 3) { // chain
				src = ps[k-1].Destination
			}
			if r.Chance(1, 2) && amt.BitLen() > 64 {
				src = "world"
			}
			if r.Chance(1, 10) {
				dst = src // self transfer
			}
			ps = append(ps, PostingJ{src, dst, amt.String(), as})
		}
		op := g.postings(ps...)
		if r.Chance(1, 3) {
			op.Reference = "ref" + op.Tag
		}
		if r.Chance(1, 2) {
			op.Timestamp = vc.Pick(r, []string{"2023-03-04T05:06:07Z", "2023-03-04T05:06:07.123456Z", "2023-03-04T05:06:07.1234564+02:00", "1999-12-31T23:59:59.999999Z"})
		}
		for k := r.Intn(3); k > 0; k-- {
			op.Meta[vc.Pick(r, []string{"k", "note", "é", "a b"})] = vc.Pick(r, []string{"", "v", "日本", "{\"x\":1}"})
		}
		op.Via = vc.Pick(r, []string{"", "", "v2", "v1", "bulk"})
		if r.Chance(1, 12) { // near-miss: invalid address / asset -> must be refused as a whole
			i := r.Intn(len(op.Postings))
			if r.Bool() {
				op.Postings[i].Destination = vc.Pick(r, []string{"bad addr", "a::b", "", "é"})
			} else {
				op.Postings[i].Asset = vc.Pick(r, []string{"usd", "USD/", "U$D", ""})
			}
		}
		return op
	}
	sc.Phases = append(sc.Phases, Phase{Clients: g.clients(r.Range(1, 2), 4, mk), DieAt: -1, WorkerW: 4})
	return sc
}

// ------------------------------------------------------------------------------------------------ C06 / C16 workload

func genWrites(r *vc.Rand) *Scenario {
	g := &opGen{r: r}
	sc := &Scenario{Kind: "writes"}
	sc.Phases = append(sc.Phases, setupPhase(g.fund("alice", 100), g.fund("bob", 100)))
	defer func() {
		// a keyed request is sometimes sent twice at once (a client that retries early): the second answer, too, needs the entry
		last := &sc.Phases[len(sc.Phases)-1]
		if r.Chance(1, 4) { // one read of a transaction meets a transient store error: an error answer must not leave an entry
			last.FailRead = fmt.Sprintf("GetTransaction:%d", r.Range(1, 3))
		}
		if !r.Chance(1, 2) || len(last.Clients) < 2 {
			return
		}
		c := r.Intn(len(last.Clients))
		if len(last.Clients[c].Ops) == 0 {
			return
		}
		k := r.Intn(len(last.Clients[c].Ops))
		op := &last.Clients[c].Ops[k]
		if op.DryRun || op.Kind == "revert" {
			return
		}
		if op.IK == "" {
			op.IK = "ik-" + op.Tag
		}
		dup := *op
		if r.Chance(1, 3) { // the same key comes back with another kind of write: it must not be told that *this* write is done
			var x Op
			switch op.Kind {
			case "savemeta", "delmeta":
				x = g.fund("alice", 1)
			default:
				x = g.saveMetaAcc("alice", map[string]string{"x": "1"})
			}
			x.IK = op.IK
			dup = x
		}
		dup.Attempt = 1
		dup.CancelAt = 0
		o := (c + 1) % len(last.Clients)
		pos := r.Intn(len(last.Clients[o].Ops) + 1)
		ops := append([]Op{}, last.Clients[o].Ops[:pos]...)
		ops = append(ops, dup)
		last.Clients[o].Ops = append(ops, last.Clients[o].Ops[pos:]...)
	}()
	sc.Phases = append(sc.Phases, Phase{Clients: g.clients(r.Range(2, 4), 2, func() Op {
		op := g.mixedOp(2, true)
		if r.Chance(1, 10) {
			op = g.saveMetaEmpty()
		}
		if r.Chance(1, 8) && !op.DryRun {
			op.IK = "ik-" + op.Tag
		}
		return op
	}), DieAt: -1, WorkerW: vc.Pick(r, []int{1, 1, 3})})
	return sc
}

// handedCounter counts the requests that have passed the append.handed hook.
type handedCounter struct{ n atomic.Int64 }

func (h *handedCounter) Yield(ctx context.Context, point string) {
	if point == "append.handed" {
		h.n.Add(1)
	}
}
func (h *handedCounter) Block(ctx context.Context, point string) {}

// ------------------------------------------------------------------------------------------------ batch boundary
// runBigBatch: more writes than the batcher's maximum batch size (4096) queue up while the first batch is held at the
// persistence gate, so the pending queue is split at the boundary.
func runBigBatch(n int) (*ScenarioRun, int) {
	env := NewEnv()
	release := make(chan struct{})
	var first atomic.Bool
	env.store.SetGate(func(ctx context.Context, point string) error {
		if point == "persist.begin" && first.CompareAndSwap(false, true) {
			<-release
		}
		return nil
	})
	g, err := env.NewGeneration(context.Background())
	run := &ScenarioRun{Env: env}
	if err != nil {
		run.InitErr = err.Error()
		return run, 0
	}
	og := &opGen{r: vc.NewRand(99)}
	var started atomic.Int64
	var wg sync.WaitGroup
	handed := &handedCounter{}
	bctx := verifhook.WithController(context.Background(), handed)
	for k := 0; k < n; k++ {
		var op Op
		switch k % 3 {
		case 0:
			op = og.saveMetaAcc(fmt.Sprintf("acc%d", k%50), nil)
		case 1:
			op = og.fund(fmt.Sprintf("acc%d", k%50), 1)
		default:
			op = og.delMetaAcc(fmt.Sprintf("acc%d", k%50))
		}
		wg.Add(1)
		go func() {
			defer wg.Done()
			rec := env.hist.call("big", g.n, op, env.step.Add(1))
			started.Add(1)
			res := execOp(bctx, g, op)
			env.hist.ret(rec, res, env.step.Add(1))
		}()
	}
	// the first batch is released once every request has handed its entry to the batcher (counted at the append.handed
	// hook, not guessed from the clock); the 120 s bound only keeps a broken engine from blocking the run
	for w := 0; w < 120000 && handed.n.Load() < int64(n); w++ {
		time.Sleep(time.Millisecond)
	}
	close(release)
	done := make(chan struct{})
	go func() { wg.Wait(); close(done) }()
	select {
	case <-done:
	case <-time.After(120 * time.Second):
		run.Stalled = "big batch scenario did not finish within 120 s"
		dumpStacks()
	}
	run.Obs = env.Observe(true)
	max := 0
	for _, b := range run.Obs.Batches {
		if b.N > max {
			max = b.N
		}
	}
	return run, max
}

// genWritesForEvents: genWrites plus metadata writes whose metadata is empty (they carry no tag; only C16's oracle, which
// matches events to entries by content, can use them).
func genWritesForEvents(r *vc.Rand) *Scenario {
	sc := genWrites(r)
	last := &sc.Phases[len(sc.Phases)-1]
	if r.Chance(1, 3) { // a script that also writes account metadata, sent with a key and retried (the retry is a replay)
		t := "am" + fmt.Sprint(r.Intn(1000))
		op := Op{Kind: "script", Tag: t, Meta: map[string]string{"req": t}, IK: "ik-" + t}
		op.Plain = "send [USD 1] (\n\tsource = @world\n\tdestination = @alice\n)\nset_account_meta(@alice, \"tier\", \"gold\")\nset_account_meta(@users:001, \"seen\", 1)\n"
		retry := op
		retry.Attempt = 2
		c := r.Intn(len(last.Clients))
		last.Clients[c].Ops = append(last.Clients[c].Ops, op, retry)
	}
	if r.Chance(1, 3) { // one key, two metadata writes of the same kind with different payloads: the second is a replay of the first
		og := &opGen{r: r, n: 5000}
		c := r.Intn(len(last.Clients))
		var a, b Op
		if r.Bool() {
			a, b = og.saveMetaAcc("alice", map[string]string{"a": "1"}), og.saveMetaAcc("bob", map[string]string{"b": "2"})
		} else {
			a, b = og.delMetaAcc("alice"), og.delMetaAcc("bob")
		}
		a.IK = "ik-" + a.Tag
		b.IK, b.Attempt = a.IK, 2
		last.Clients[c].Ops = append(last.Clients[c].Ops, a, b)
	}
	for pi := range sc.Phases { // every field of the entry must be in the event: references and client timestamps too
		for c := range sc.Phases[pi].Clients {
			for k := range sc.Phases[pi].Clients[c].Ops {
				op := &sc.Phases[pi].Clients[c].Ops[k]
				if op.Kind == "script" || op.Kind == "postings" {
					if r.Chance(1, 2) {
						op.Reference = "order-" + op.Tag
					}
					if r.Chance(1, 3) {
						op.Timestamp = vc.Pick(r, []string{"2023-03-04T05:06:07Z", "2023-03-04T05:06:07.123456Z", "2031-01-01T00:00:00+02:00"})
					}
				}
			}
		}
	}
	for c := range last.Clients {
		if r.Chance(1, 2) {
			op := Op{Kind: "savemeta", Tag: "", TargetType: "ACCOUNT", TargetID: vc.Pick(r, accts), Meta: map[string]string{}}
			if r.Bool() {
				op.TargetType, op.TargetID = "TRANSACTION", fmt.Sprint(r.Intn(2))
			}
			pos := r.Intn(len(last.Clients[c].Ops) + 1)
			ops := append([]Op{}, last.Clients[c].Ops[:pos]...)
			ops = append(ops, op)
			last.Clients[c].Ops = append(ops, last.Clients[c].Ops[pos:]...)
		}
	}
	return sc
}

// ------------------------------------------------------------------------------------------------ bursts
// runBurst: truly simultaneous duplicates. One generation, free-running (no hooks, no gate latency); per round a fresh
// reference / idempotency key and `width` identical requests released together by a barrier.
func runBurst(rounds, width int, kind string) *ScenarioRun {
	env := NewEnv()
	run := &ScenarioRun{Env: env}
	g, err := env.NewGeneration(context.Background())
	if err != nil {
		run.InitErr = err.Error()
		return run
	}
	og := &opGen{r: vc.NewRand(7)}
	for rd := 0; rd < rounds; rd++ {
		base := og.send("world", "sink", 1, "", "literal")
		switch kind {
		case "reference":
			base.Reference = fmt.Sprintf("burst-ref-%d", rd)
		case "ik":
			base.IK = fmt.Sprintf("burst-ik-%d", rd)
		}
		start := make(chan struct{})
		var wg sync.WaitGroup
		for w := 0; w < width; w++ {
			op := base
			if kind == "reference" { // different requests, same reference
				t := og.tag()
				op.Tag = t
				op.Meta = map[string]string{"req": t}
			}
			op.Attempt = w + 1
			wg.Add(1)
			go func(w int) {
				defer wg.Done()
				<-start
				rec := env.hist.call(fmt.Sprintf("b%d", w), g.n, op, env.step.Add(1))
				res := execOp(context.Background(), g, op)
				env.hist.ret(rec, res, env.step.Add(1))
			}(w)
		}
		close(start)
		done := make(chan struct{})
		go func() { wg.Wait(); close(done) }()
		select {
		case <-done:
		case <-time.After(60 * time.Second):
			run.Stalled = "burst round did not finish within 60 s"
			dumpStacks()
			run.Obs = env.Observe(true)
			return run
		}
	}
	run.Obs = env.Observe(true)
	return run
}

// ------------------------------------------------------------------------------------------------ fail storm
// runFailStorm: free-running writers keep appending while the k-th InsertLogs fails (the runner dies, as in production).
// Requests caught by the failure stay open; nothing acknowledged may be missing from the store.
func runFailStorm(r *vc.Rand) *ScenarioRun {
	env := NewEnv()
	run := &ScenarioRun{Env: env}
	env.store.FailInsert = r.Range(2, 8)
	g, err := env.NewGeneration(context.Background())
	if err != nil {
		run.InitErr = err.Error()
		return run
	}
	og := &opGen{r: r}
	nClients := r.Range(6, 16)
	var wg sync.WaitGroup
	for c := 0; c < nClients; c++ {
		ops := make([]Op, r.Range(3, 8))
		for k := range ops {
			switch r.Intn(3) {
			case 0:
				ops[k] = og.fund(vc.Pick(r, accts), int64(r.Range(1, 9)))
			case 1:
				ops[k] = og.saveMetaAcc(vc.Pick(r, accts), nil)
			default:
				ops[k] = og.delMetaAcc(vc.Pick(r, accts))
			}
		}
		wg.Add(1)
		go func(c int, ops []Op) {
			defer wg.Done()
			for _, op := range ops {
				rec := env.hist.call(fmt.Sprintf("s%d", c), g.n, op, env.step.Add(1))
				res := execOp(context.Background(), g, op)
				env.hist.ret(rec, res, env.step.Add(1))
			}
		}(c, ops)
	}
	done := make(chan struct{})
	go func() { wg.Wait(); close(done) }()
	for w := 0; w < 4000; w++ { // until the runner has died (or everything finished without reaching the failing call)
		if g.dead.Load() {
			break
		}
		select {
		case <-done:
			w = 4000
		case <-time.After(time.Millisecond):
		}
	}
	time.Sleep(20 * time.Millisecond) // acknowledgements already under way
	run.Obs = env.Observe(false)
	return run
}

// ------------------------------------------------------------------------------------------------ close under load
// runCloseStorm: the ledger is closed (Commander.Close, as engine.Ledger.Close does) while one batch is being written
// and further writes are queued behind it. Whatever the queued requests are told, an acknowledgement needs an entry.
func runCloseStorm(r *vc.Rand) *ScenarioRun {
	env := NewEnv()
	release := make(chan struct{})
	var first atomic.Bool
	env.store.SetGate(func(ctx context.Context, point string) error {
		if point == "persist.begin" && first.CompareAndSwap(false, true) {
			<-release
		}
		return nil
	})
	run := &ScenarioRun{Env: env}
	g, err := env.NewGeneration(context.Background())
	if err != nil {
		run.InitErr = err.Error()
		return run
	}
	og := &opGen{r: r}
	n := r.Range(3, 24)
	var started atomic.Int64
	var wg sync.WaitGroup
	for k := 0; k < n; k++ {
		var op Op
		switch r.Intn(4) {
		case 0:
			op = og.fund(fmt.Sprintf("acc%d", k%5), int64(1+k))
		case 1:
			op = og.saveMetaAcc(fmt.Sprintf("acc%d", k%5), nil)
		case 2:
			op = og.delMetaAcc(fmt.Sprintf("acc%d", k%5))
		default:
			op = og.postings(P("world", fmt.Sprintf("acc%d", k%5), int64(1+k)))
		}
		wg.Add(1)
		go func(k int) {
			defer wg.Done()
			rec := env.hist.call(fmt.Sprintf("w%d", k), g.n, op, env.step.Add(1))
			started.Add(1)
			res := execOp(context.Background(), g, op)
			env.hist.ret(rec, res, env.step.Add(1))
		}(k)
	}
	for w := 0; w < 2000 && started.Load() < int64(n); w++ {
		time.Sleep(time.Millisecond)
	}
	time.Sleep(time.Duration(r.Range(5, 40)) * time.Millisecond) // the requests reach the batcher; the first batch is at the gate
	closed := make(chan struct{})
	go func() {
		defer func() { _ = recover() }()
		g.cmd.Close()
		close(closed)
	}()
	time.Sleep(time.Duration(r.Range(1, 30)) * time.Millisecond)
	close(release)
	done := make(chan struct{})
	go func() { wg.Wait(); close(done) }()
	select {
	case <-done:
	case <-closed:
		time.Sleep(30 * time.Millisecond) // acknowledgements under way
	case <-time.After(3 * time.Second):
	}
	g.dead.Store(true) // already closed: Observe's shutdown must not close it again
	run.Obs = env.Observe(false)
	return run
}
