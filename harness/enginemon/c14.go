package main

import (
	"fmt"
	"reflect"

	ledger "github.com/formancehq/ledger/internal"
	vc "github.com/formancehq/ledger/internal/verif/vcommon"
)

// C14: a dry run changes nothing. Sequential histories (one client) with previews at random positions and restarts in
// between, compared with the twin history in which the previews are removed.

type histItem struct {
	Op      Op
	Restart bool // a restart (new generation on the same store) happens before this op
}

func genPreviewHistory(r *vc.Rand) []histItem {
	g := &opGen{r: r}
	var h []histItem
	n := r.Range(5, 30)
	nTx := 0
	ts := 0
	stamp := func(op Op) Op {
		if op.Kind == "script" || op.Kind == "postings" {
			ts++
			op.Timestamp = fmt.Sprintf("2023-01-01T00:%02d:%02dZ", ts/60, ts%60)
		}
		return op
	}
	if r.Chance(1, 3) {
		// previews on an empty ledger, before the first real transaction (and sometimes a restart right after them)
		for k := r.Range(1, 2); k > 0; k-- {
			pv := stamp(g.fund(vc.Pick(r, accts), int64(r.Range(1, 50))))
			pv.DryRun = true
			pv.Tag = fmt.Sprintf("%s-preview-first%d", pv.Tag, k)
			pv.Meta = map[string]string{"req": pv.Tag}
			h = append(h, histItem{Op: pv})
		}
	}
	h = append(h, histItem{Op: stamp(g.fund("alice", 300)), Restart: r.Chance(1, 4)}, histItem{Op: stamp(g.fund("bob", 100))})
	nTx = 2
	var keyed []Op
	for k := 0; k < n; k++ {
		op := stamp(g.mixedOp(nTx, false))
		if r.Chance(1, 8) {
			op.Reference = "ref-" + op.Tag
		}
		if r.Chance(1, 10) {
			op.IK = "ik-" + op.Tag
		}
		it := histItem{Op: op, Restart: r.Chance(1, 8)}
		if len(keyed) > 0 && r.Chance(1, 8) {
			// a preview that retries an earlier keyed request: it must answer what the real retry answers (the recorded outcome)
			pv := keyed[r.Intn(len(keyed))]
			pv.DryRun = true
			pv.Tag = fmt.Sprintf("%s-preview-replay%d", pv.Tag, k)
			h = append(h, histItem{Op: pv})
		}
		if op.IK != "" && (op.Kind == "script" || op.Kind == "postings") {
			keyed = append(keyed, op)
		}
		if r.Chance(1, 3) {
			// a preview: either of a fresh request or of the request that follows
			pv := op
			if r.Bool() {
				pv = stamp(g.mixedOp(nTx, false))
			}
			pv.DryRun = true
			pv.Tag = fmt.Sprintf("%s-preview%d", pv.Tag, k) // unique even for repeated previews of one revert
			if pv.Kind == "script" || pv.Kind == "postings" || pv.Kind == "savemeta" {
				m := map[string]string{}
				for a, b := range pv.Meta {
					m[a] = b
				}
				m["req"] = pv.Tag
				pv.Meta = m
			}
			if pv.Kind == "delmeta" {
				pv.Key = pv.Tag
			}
			pv.IK = ""
			switch r.Intn(6) { // a preview may carry an idempotency key like any other request
			case 0:
				pv.IK = "ik-" + pv.Tag // a key of its own
			case 1:
				if op.IK == "" {
					op.IK = "ik-" + op.Tag
					it.Op = op
				}
				pv.IK = op.IK // the key of the real request that follows
			}
			h = append(h, histItem{Op: pv, Restart: it.Restart})
			it.Restart = false
		}
		h = append(h, it)
		if op.Kind == "script" || op.Kind == "postings" || op.Kind == "revert" {
			nTx++ // upper bound; a failing op does not create one, fine for choosing targets
		}
	}
	return h
}

func toScenario(h []histItem, skipPreviews bool, upto int, realise int) *Scenario {
	sc := &Scenario{Kind: "preview-history"}
	cur := ClientPlan{Name: "client"}
	flush := func() {
		if len(cur.Ops) > 0 {
			sc.Phases = append(sc.Phases, Phase{Clients: []ClientPlan{cur}, DieAt: -1, WorkerW: 4})
			cur = ClientPlan{Name: "client"}
		}
	}
	for i, it := range h {
		if upto >= 0 && i > upto {
			break
		}
		if it.Restart {
			flush()
		}
		op := it.Op
		if op.DryRun {
			if i == realise {
				op.DryRun = false
			} else if skipPreviews {
				continue
			}
		}
		cur.Ops = append(cur.Ops, op)
	}
	flush()
	return sc
}

type logView struct {
	Type   string
	TxID   string
	Post   []PostingJ
	Ref    string
	Meta   map[string]string
	Target string
	Key    string
}

func viewLogs(o *Observed) []logView {
	var out []logView
	for _, l := range o.Logs {
		v := logView{Type: l.Type.String()}
		if t := logTx(l); t != nil {
			j := txJ(t)
			v.TxID, v.Post, v.Ref, v.Meta = j.ID, j.Postings, j.Reference, j.Metadata
		}
		switch d := l.Data.(type) {
		case ledger.RevertedTransactionLogPayload:
			v.Target = d.RevertedTransactionID.String()
		case ledger.SetMetadataLogPayload:
			v.Target = d.TargetType + "/" + idKey(d.TargetID)
			v.Meta = map[string]string{}
			for k, x := range d.Metadata {
				v.Meta[k] = x
			}
		case ledger.DeleteMetadataLogPayload:
			v.Target, v.Key = d.TargetType+"/"+idKey(d.TargetID), d.Key
		}
		out = append(out, v)
	}
	return out
}

func resView(r *Result) string {
	if r == nil {
		return "open"
	}
	if !r.OK {
		return "error:" + r.Class
	}
	if r.Tx == nil {
		return "ok"
	}
	return fmt.Sprintf("ok tx=%s postings=%v ref=%s", r.Tx.ID, r.Tx.Postings, r.Tx.Reference)
}

func runC14(cfg *vc.Config, rep *vc.Report) {
	cfg.Cases(300, 15000, func(i int, r *vc.Rand) {
		h := genPreviewHistory(r.Fork())
		seed := r.Uint64()
		rep.Current(map[string]any{"index": i, "history": h})
		rep.Eval()
		a := runControlled(toScenario(h, false, -1, -1), seed)
		b := runControlled(toScenario(h, true, -1, -1), seed)
		if a.Stalled != "" || b.Stalled != "" {
			rep.Inconc("stalled: " + a.Stalled + b.Stalled)
			return
		}
		desc := func() any { return map[string]any{"index": i, "history": h} }
		rep.Add("requests", int64(len(a.Obs.Recs)))
		rep.Add("restarts", int64(len(a.Scheds)-1))
		var previews []int
		// (1) per preview: no log entry, no event
		for _, rec := range a.Obs.Recs {
			if !rec.Op.DryRun {
				continue
			}
			rep.Inc("previews")
			rep.Inc("preview_" + rec.Op.Kind)
			if rec.Res != nil && rec.Res.OK {
				rep.Inc("previews_succeeding")
			}
			if rec.LogsAtRet != rec.LogsAtCall {
				rep.Violate("dry-run-left-a-log:"+rec.Op.Kind, fmt.Sprintf("preview %s: %d log entries before, %d after", rec.Op.Tag, rec.LogsAtCall, rec.LogsAtRet), i, desc())
			}
			if rec.MsgsAtRet != rec.MsgsAtCall {
				rep.Violate("dry-run-published-event:"+rec.Op.Kind, fmt.Sprintf("preview %s: %d events before, %d after", rec.Op.Tag, rec.MsgsAtCall, rec.MsgsAtRet), i, desc())
			}
		}
		for k, it := range h {
			if it.Op.DryRun {
				previews = append(previews, k)
			}
		}
		// (2) the rest of the history behaves as if the previews had never been made
		va, vb := viewLogs(a.Obs), viewLogs(b.Obs)
		if !reflect.DeepEqual(va, vb) {
			rule := "later-history-differs"
			for k := 0; k < len(va) && k < len(vb); k++ {
				if va[k].TxID != vb[k].TxID {
					rule = "dry-run-consumed-txid"
					break
				}
			}
			rep.Violate(rule, fmt.Sprintf("log with previews:    %v\nlog without previews: %v", va, vb), i, desc())
		}
		ra := map[string]string{}
		for _, rec := range a.Obs.Recs {
			if !rec.Op.DryRun {
				ra[fmt.Sprint(rec.Op.Tag, "#", rec.Op.Attempt, "#", rec.Seq-countPreviewsBefore(a.Obs.Recs, rec.Seq))] = resView(rec.Res)
			}
		}
		for _, rec := range b.Obs.Recs {
			k := fmt.Sprint(rec.Op.Tag, "#", rec.Op.Attempt, "#", rec.Seq)
			if ra[k] != resView(rec.Res) {
				rep.Violate("later-answers-differ", fmt.Sprintf("request %s: with previews %q, without %q", rec.Op.Tag, ra[k], resView(rec.Res)), i, desc())
				break
			}
		}
		// (3) the preview answers what the real write would answer (one preview per history, replayed for real)
		if len(previews) > 0 {
			k := previews[r.Intn(len(previews))]
			c := runControlled(toScenario(h, false, k, k), seed)
			if c.Stalled == "" {
				tag := h[k].Op.Tag
				var pa, pc *Record
				for _, rec := range a.Obs.Recs {
					if rec.Op.Tag == tag {
						pa = rec
					}
				}
				for _, rec := range c.Obs.Recs {
					if rec.Op.Tag == tag {
						pc = rec
					}
				}
				if pa != nil && pc != nil && resView(pa.Res) != resView(pc.Res) {
					rep.Violate("dry-run-answer-differs-from-real:"+h[k].Op.Kind, fmt.Sprintf("preview answered %q, the same write done for real in the same state answers %q", resView(pa.Res), resView(pc.Res)), i, desc())
				}
				rep.Inc("previews_replayed_for_real")
			}
		}
		rep.DistinctCase(vc.Hash64(vc.MustJSON(h)))
		if rep.WantSample() && len(previews) > 1 {
			rep.Sample(map[string]any{"history_ops": len(h), "previews_at": previews, "restarts": len(a.Scheds) - 1, "first_ops": h[:4]})
		}
	})
}

func countPreviewsBefore(recs []*Record, seq int) int {
	n := 0
	for _, r := range recs {
		if r.Seq < seq && r.Op.DryRun {
			n++
		}
	}
	return n
}

// ------------------------------------------------------------------------------------------------ concurrent previews
// Previews are injected into the concurrent workloads of the other engine properties (contested references, idempotency
// keys, hot accounts, mixed writes). The standard oracles run on the result; a violation that appears with the previews
// while the same scenario without them is clean under the same schedule seeds is a preview that changed later behaviour.

func injectPreviews(sc *Scenario, r *vc.Rand) (*Scenario, int) {
	out := &Scenario{Kind: sc.Kind + "+previews"}
	n := 0
	for pi, ph := range sc.Phases {
		np := ph
		np.Clients = nil
		var pool []Op
		for _, c := range ph.Clients {
			pool = append(pool, c.Ops...)
		}
		for _, c := range ph.Clients {
			nc := ClientPlan{Name: c.Name}
			for _, op := range c.Ops {
				if pi > 0 && len(pool) > 0 && r.Chance(1, 2) {
					pv := pool[r.Intn(len(pool))]
					n++
					pv.DryRun = true
					pv.IK = ""
					pv.CancelAt = 0
					pv.Tag = fmt.Sprintf("%s-preview%d", pv.Tag, n)
					if pv.Meta != nil {
						m := map[string]string{}
						for a, b := range pv.Meta {
							m[a] = b
						}
						m["req"] = pv.Tag
						pv.Meta = m
					}
					if pv.Kind == "delmeta" {
						pv.Key = pv.Tag
					}
					nc.Ops = append(nc.Ops, pv)
				}
				nc.Ops = append(nc.Ops, op)
			}
			np.Clients = append(np.Clients, nc)
		}
		out.Phases = append(out.Phases, np)
	}
	return out, n
}

func allOracles(o *Observed) []Finding {
	var fs []Finding
	for i, l := range o.Logs {
		if t := logTag(l); len(t) > 8 && containsPreview(t) {
			fs = append(fs, Finding{"dry-run-left-a-log:" + l.Type.String(), fmt.Sprintf("log %d carries the tag of a preview (%s)", i, t)})
		}
	}
	fs = append(fs, checkChain(o)...)
	fs = append(fs, checkReferences(o)...)
	fs = append(fs, checkIdempotency(o)...)
	fs = append(fs, checkNoDoubleSpend(o)...)
	fs = append(fs, checkAckPersist(o)...)
	fs = append(fs, checkEvents(o)...)
	return fs
}

func containsPreview(t string) bool {
	for i := 0; i+8 <= len(t); i++ {
		if t[i:i+8] == "-preview" {
			return true
		}
	}
	return false
}

func runC14Concurrent(cfg *vc.Config, rep *vc.Report) {
	gens := []func(*vc.Rand) *Scenario{genReferences, genIdempotency, genContention, genWrites, genReverts}
	nSched := 4
	if cfg.Tier == "thorough" {
		nSched = 8
	}
	cfg.Cases(240, 6000, func(i int, r *vc.Rand) {
		base := gens[i%len(gens)](r.Fork())
		with, n := injectPreviews(base, r.Fork())
		if n == 0 {
			return
		}
		rep.Current(map[string]any{"index": i, "scenario": planJSON(with)})
		for k := 0; k < nSched; k++ {
			seed := r.Uint64()
			a := runControlled(with, seed)
			rep.Eval()
			rep.Inc("schedules")
			rep.Add("previews", int64(n))
			rep.Inc("workload_" + base.Kind)
			if a.Stalled != "" {
				rep.Inconc("stalled: " + a.Stalled)
				return
			}
			for _, s := range a.Scheds {
				rep.DistinctCase(s.Signature() ^ uint64(i))
			}
			fa := allOracles(a.Obs)
			if len(fa) == 0 {
				continue
			}
			// does the same scenario without the previews misbehave too (then it is not the previews' doing)?
			clean := true
			for j := 0; j < 6 && clean; j++ {
				b := runControlled(base, seed+uint64(j))
				if len(allOracles(b.Obs)) > 0 {
					clean = false
				}
			}
			rep.Inc("twin_comparisons")
			if clean {
				rep.Violate("preview-changes-later-behaviour:"+fa[0].Rule, fa[0].What, i, map[string]any{"index": i, "schedule": k, "scenario": planJSON(with), "history": a.Obs.Recs, "log_ids": logIDs(a.Obs)})
			} else {
				rep.Inc("violations_also_without_previews")
			}
		}
	})
}
