package main

import (
	"context"
	"fmt"
	"os"
	"runtime"
	"strings"
	"sync/atomic"
	"time"

	vc "github.com/formancehq/ledger/internal/verif/vcommon"
	"github.com/formancehq/ledger/internal/verifhook"
)

// ------------------------------------------------------------------------------------------------
// Controlled scheduler. Tasks = client goroutines + the batch worker (visible at MonStore's two gates).
// Exactly one task holds the token; at Yield it reports and parks; at Block it reports and goes on into the real
// blocking primitive (it then counts as externally blocked until its next Yield). Verdicts never depend on the
// schedule actually taken: they are computed from the recorded history.

type tstate int

const (
	stNew tstate = iota
	stRunning
	stParked
	stBlocked
	stIdle // worker outside InsertLogs
	stDone
)

type evKind int

const (
	evYield evKind = iota
	evBlock
	evDone
	evIdle
)

type event struct {
	t     *task
	kind  evKind
	point string
}

type resumeMsg struct{ die bool }

type task struct {
	id     int
	name   string
	worker bool
	state  tstate
	point  string
	resume chan resumeMsg
	s      *Scheduler
	// request-context cancellation: the context of the current request is cancelled when the task reaches its
	// cancelAfter-th hook from now
	cancelAfter int
	cancelFn    func()
}

func (t *task) tick() {
	if t.cancelAfter > 0 {
		t.cancelAfter--
		if t.cancelAfter == 0 && t.cancelFn != nil {
			t.cancelFn()
		}
	}
}

type Scheduler struct {
	r        *vc.Rand
	events   chan event
	tasks    []*task
	worker   *task
	dead     atomic.Bool
	Trace    []string
	Overtake map[string]int // point -> times another task was chosen while a task was parked there
	Decision int
	DieAt    int // decision index at which the generation is killed (-1: never)
	DiedAt   string
	Died     bool
	Stalled  string
	WorkerW  int // weight of the worker among parked tasks (clients weigh 4)
	// Hold: while any task is parked at one of these points, prefer others (targeted delay); released when nothing else can run
	Hold    map[string]bool
	GenDead *atomic.Bool // set when the generation's runner has died (store failure)
}

func NewScheduler(r *vc.Rand) *Scheduler {
	s := &Scheduler{r: r, events: make(chan event, 8192), Overtake: map[string]int{}, DieAt: -1, WorkerW: 1, Hold: map[string]bool{}}
	s.worker = &task{id: 0, name: "worker", worker: true, state: stIdle, resume: make(chan resumeMsg, 1), s: s}
	s.tasks = append(s.tasks, s.worker)
	return s
}

func (s *Scheduler) NewTask(name string) *task {
	t := &task{id: len(s.tasks), name: name, state: stNew, resume: make(chan resumeMsg, 1), s: s}
	s.tasks = append(s.tasks, t)
	return t
}

// ---- task side

func (t *task) send(ev event) bool {
	if t.s.dead.Load() {
		return false
	}
	select {
	case t.s.events <- ev:
		return true
	default:
		return false
	}
}

// Yield implements verifhook.Controller.
func (t *task) Yield(ctx context.Context, point string) {
	t.tick()
	if !t.send(event{t, evYield, point}) {
		select {} // the generation is dead: this goroutine is abandoned where it stands
	}
	msg := <-t.resume
	if msg.die {
		select {}
	}
}

// Block implements verifhook.Controller.
func (t *task) Block(ctx context.Context, point string) {
	t.tick()
	t.send(event{t, evBlock, point})
}

func (t *task) Ctx(ctx context.Context) context.Context { return verifhook.WithController(ctx, t) }

// Gate for MonStore (worker task).
func (s *Scheduler) Gate(ctx context.Context, point string) error {
	t := s.worker
	if !t.send(event{t, evYield, point}) {
		return errGenerationDead
	}
	msg := <-t.resume
	if msg.die {
		return errGenerationDead
	}
	if point == "persist.end" {
		t.send(event{t, evIdle, ""})
	}
	return nil
}

// ---- scheduler side

func (s *Scheduler) handle(ev event) {
	switch ev.kind {
	case evYield:
		ev.t.state, ev.t.point = stParked, ev.point
	case evBlock:
		ev.t.state, ev.t.point = stBlocked, ev.point
	case evDone:
		ev.t.state = stDone
	case evIdle:
		ev.t.state = stIdle
	}
}

func (s *Scheduler) drain(settle time.Duration) {
	for {
		select {
		case ev := <-s.events:
			s.handle(ev)
			continue
		default:
		}
		if settle <= 0 {
			return
		}
		select {
		case ev := <-s.events:
			s.handle(ev)
		case <-time.After(settle):
			return
		}
	}
}

func (s *Scheduler) waitEvent(d time.Duration) bool {
	select {
	case ev := <-s.events:
		s.handle(ev)
		return true
	case <-time.After(d):
		return false
	}
}

// Run drives the tasks until every client task is done (or the generation is killed / a stall is detected).
func (s *Scheduler) Run(starts []func()) {
	for _, f := range starts {
		go f()
	}
	var running *task
	for {
		if running != nil {
			deadline := time.Now().Add(30 * time.Second)
			for running.state == stRunning {
				if s.GenDead != nil && s.GenDead.Load() {
					s.Died = true
					s.DiedAt = "runner died (store failure)"
					s.dead.Store(true)
					return
				}
				if s.waitEvent(5 * time.Millisecond) {
					continue
				}
				if time.Now().After(deadline) {
					s.Stalled = fmt.Sprintf("task %s did not reach a hook within 30 s after %s", running.name, running.point)
					dumpStacks()
					s.dead.Store(true)
					return
				}
			}
		}
		s.drain(150 * time.Microsecond)
		var parked []*task
		active := 0
		clientsLeft := 0
		for _, t := range s.tasks {
			switch t.state {
			case stParked:
				parked = append(parked, t)
			case stBlocked, stNew, stRunning:
				active++
			}
			if !t.worker && t.state != stDone {
				clientsLeft++
			}
		}
		if clientsLeft == 0 && s.worker.state != stParked {
			return
		}
		if len(parked) == 0 {
			if active == 0 {
				return
			}
			// everything is blocked on real primitives (or still starting): wait for an arrival
			arrived := false
			for w := 0; w < 2000 && !arrived; w++ {
				if s.GenDead != nil && s.GenDead.Load() {
					s.Died = true
					s.DiedAt = "runner died (store failure)"
					s.dead.Store(true)
					return
				}
				arrived = s.waitEvent(5 * time.Millisecond)
			}
			if !arrived {
				var bl []string
				for _, t := range s.tasks {
					if t.state == stBlocked || t.state == stNew {
						bl = append(bl, t.name+"@"+t.point)
					}
				}
				s.Stalled = "no task can run: " + strings.Join(bl, ", ")
				dumpStacks()
				s.dead.Store(true)
				return
			}
			running = nil
			continue
		}
		if s.Decision == s.DieAt {
			s.kill(parked)
			return
		}
		// choose
		var cands []*task
		for _, t := range parked {
			if !s.Hold[t.point] {
				cands = append(cands, t)
			}
		}
		if len(cands) == 0 {
			cands = parked
		}
		total := 0
		w := func(t *task) int {
			if t.worker {
				return s.WorkerW
			}
			return 4
		}
		for _, t := range cands {
			total += w(t)
		}
		var pick *task
		if total == 0 {
			pick = cands[s.r.Intn(len(cands))]
		} else {
			k := s.r.Intn(total)
			for _, t := range cands {
				if k < w(t) {
					pick = t
					break
				}
				k -= w(t)
			}
		}
		for _, t := range parked {
			if t != pick {
				s.Overtake[t.point]++
			}
		}
		s.Trace = append(s.Trace, pick.name+":"+pick.point)
		s.Decision++
		pick.state = stRunning
		running = pick
		pick.resume <- resumeMsg{}
	}
}

func (s *Scheduler) kill(parked []*task) {
	s.Died = true
	var where []string
	for _, t := range s.tasks {
		if t.state == stParked || t.state == stBlocked {
			where = append(where, t.name+"@"+t.point)
		}
	}
	s.DiedAt = strings.Join(where, ",")
	s.dead.Store(true)
	if s.worker.state == stParked {
		s.worker.resume <- resumeMsg{die: true}
	}
}

func dumpStacks() {
	buf := make([]byte, 1<<20)
	n := runtime.Stack(buf, true)
	fmt.Fprintf(os.Stderr, "=== stall: goroutine dump ===\n%s\n", buf[:n])
}

// Signature of the interleaving explored.
func (s *Scheduler) Signature() uint64 { return vc.Hash64(s.Trace...) }

// ------------------------------------------------------------------------------------------------
// Free-running mode: hooks are random yields / micro-sleeps.

type freeCtl struct {
	seed atomic.Uint64
}

func (f *freeCtl) rnd() uint64 {
	x := f.seed.Add(0x9E3779B97F4A7C15)
	x = (x ^ (x >> 30)) * 0xBF58476D1CE4E5B9
	x = (x ^ (x >> 27)) * 0x94D049BB133111EB
	return x ^ (x >> 31)
}

func (f *freeCtl) Yield(ctx context.Context, point string) {
	switch f.rnd() % 6 {
	case 0:
		runtime.Gosched()
	case 1:
		time.Sleep(time.Duration(f.rnd()%150) * time.Microsecond)
	}
}
func (f *freeCtl) Block(ctx context.Context, point string) {}

func (f *freeCtl) Gate(ctx context.Context, point string) error {
	if point == "persist.begin" {
		time.Sleep(time.Duration(f.rnd()%1500) * time.Microsecond)
	} else {
		time.Sleep(time.Duration(f.rnd()%300) * time.Microsecond)
	}
	return nil
}
