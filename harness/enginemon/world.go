package main

import (
	"bytes"
	"context"
	"encoding/json"
	"fmt"
	"math/big"
	"net/http"
	"net/http/httptest"
	"runtime/debug"
	"strings"
	"sync"
	"sync/atomic"
	"time"

	"github.com/ThreeDotsLabs/watermill/message"
	ledger "github.com/formancehq/ledger/internal"
	"github.com/formancehq/ledger/internal/api"
	"github.com/formancehq/ledger/internal/bus"
	"github.com/formancehq/ledger/internal/engine/command"
	"github.com/formancehq/ledger/internal/machine"
	"github.com/formancehq/ledger/internal/opentelemetry/metrics"
	"github.com/formancehq/ledger/internal/verif/apiback"
	"github.com/formancehq/ledger/internal/verifhook"
	"github.com/formancehq/stack/libs/go-libs/auth"
	"github.com/formancehq/stack/libs/go-libs/health"
	"github.com/formancehq/stack/libs/go-libs/metadata"
)

// ------------------------------------------------------------------------------------------------ requests

type Op struct {
	Kind    string `json:"kind"` // script | postings | revert | savemeta | delmeta
	Tag     string `json:"tag"`  // logical request (unique, carried in the payload so that a log is attributable)
	Attempt int    `json:"attempt,omitempty"`
	// script / postings
	Plain     string            `json:"script,omitempty"`
	Vars      map[string]string `json:"vars,omitempty"`
	Postings  []PostingJ        `json:"postings,omitempty"`
	Meta      map[string]string `json:"metadata,omitempty"`
	Reference string            `json:"reference,omitempty"`
	Timestamp string            `json:"timestamp,omitempty"`
	// revert
	TxID  string `json:"txid,omitempty"`
	Force bool   `json:"force,omitempty"`
	// metadata
	TargetType string `json:"target_type,omitempty"`
	TargetID   string `json:"target_id,omitempty"`
	Key        string `json:"key,omitempty"`
	// parameters
	DryRun bool   `json:"dry_run,omitempty"`
	IK     string `json:"ik,omitempty"`
	// Via: "" = Commander call, "v2" / "v1" = through the real HTTP handlers (posting-mode requests)
	Via string `json:"via,omitempty"`
	// PreviewParam: for HTTP requests that are not previews, the value the preview option is explicitly given (false, 0, ...)
	PreviewParam string `json:"preview_param,omitempty"`
	// CancelAt > 0: the request's context is cancelled when its client reaches its CancelAt-th hook point
	CancelAt int `json:"cancel_at_hook,omitempty"`
	// what the script grants (for the C02 oracle): account -> "unbounded" or decimal bound
	Overdraft map[string]string `json:"overdraft,omitempty"`
}

type PostingJ struct {
	Source      string `json:"source"`
	Destination string `json:"destination"`
	Amount      string `json:"amount"`
	Asset       string `json:"asset"`
}

func (p PostingJ) big() *big.Int { n, _ := new(big.Int).SetString(p.Amount, 10); return n }

type Result struct {
	OK    bool   `json:"ok"`
	Class string `json:"class,omitempty"`
	Err   string `json:"err,omitempty"`
	TxID  string `json:"txid,omitempty"`
	Tx    *TxJ   `json:"tx,omitempty"`
	Panic string `json:"panic,omitempty"`
	raw   *ledger.Transaction
}

type TxJ struct {
	ID        string            `json:"id"`
	Postings  []PostingJ        `json:"postings"`
	Metadata  map[string]string `json:"metadata"`
	Reference string            `json:"reference,omitempty"`
	Timestamp string            `json:"timestamp"`
}

func txJ(t *ledger.Transaction) *TxJ {
	if t == nil {
		return nil
	}
	out := &TxJ{ID: t.ID.String(), Metadata: map[string]string{}, Reference: t.Reference, Timestamp: t.Timestamp.Format(time.RFC3339Nano)}
	for _, p := range t.Postings {
		out.Postings = append(out.Postings, PostingJ{p.Source, p.Destination, p.Amount.String(), p.Asset})
	}
	for k, v := range t.Metadata {
		out.Metadata[k] = v
	}
	return out
}

type Record struct {
	Seq      int     `json:"seq"`
	Client   string  `json:"client"`
	Gen      int     `json:"generation"`
	Op       Op      `json:"op"`
	CallStep int64   `json:"call_step"`
	RetStep  int64   `json:"ret_step"` // -1 = open (never answered)
	Res      *Result `json:"result,omitempty"`
	// persisted log entries / published messages seen just before the call and just after the reply
	LogsAtCall, LogsAtRet, MsgsAtCall, MsgsAtRet int
}

type History struct {
	mu   sync.Mutex
	Recs []*Record
}

func (e *Env) counts() (int, int) {
	e.store.mu.Lock()
	n := len(e.store.logs)
	e.store.mu.Unlock()
	e.bus.mu.Lock()
	m := len(e.bus.Msgs)
	e.bus.mu.Unlock()
	return n, m
}

func (h *History) call(client string, gen int, op Op, step int64) *Record {
	h.mu.Lock()
	defer h.mu.Unlock()
	r := &Record{Seq: len(h.Recs), Client: client, Gen: gen, Op: op, CallStep: step, RetStep: -1}
	h.Recs = append(h.Recs, r)
	return r
}

func (h *History) ret(r *Record, res *Result, step int64) {
	h.mu.Lock()
	r.Res, r.RetStep = res, step
	h.mu.Unlock()
}

func (h *History) Snapshot() []*Record {
	h.mu.Lock()
	defer h.mu.Unlock()
	out := make([]*Record, len(h.Recs))
	for i, r := range h.Recs {
		c := *r
		out[i] = &c
	}
	return out
}

// ------------------------------------------------------------------------------------------------ bus recorder

type BusMsg struct {
	Topic   string          `json:"topic"`
	Type    string          `json:"type"`
	Payload json.RawMessage `json:"payload"`
	Step    int64           `json:"step"`
	// number of persisted logs at publish time
	LogsAtPublish int `json:"logs_at_publish"`
}

type busRec struct {
	mu    sync.Mutex
	Msgs  []BusMsg
	step  *atomic.Int64
	store *MonStore
}

func (b *busRec) Publish(topic string, messages ...*message.Message) error {
	for _, m := range messages {
		var env struct {
			Type    string          `json:"type"`
			Payload json.RawMessage `json:"payload"`
		}
		_ = json.Unmarshal(m.Payload, &env)
		b.store.mu.Lock()
		n := len(b.store.logs)
		b.store.mu.Unlock()
		b.mu.Lock()
		b.Msgs = append(b.Msgs, BusMsg{Topic: topic, Type: env.Type, Payload: env.Payload, Step: b.step.Add(1), LogsAtPublish: n})
		b.mu.Unlock()
	}
	return nil
}
func (b *busRec) Close() error { return nil }

func (b *busRec) Snapshot() []BusMsg {
	b.mu.Lock()
	defer b.mu.Unlock()
	return append([]BusMsg{}, b.Msgs...)
}

// ------------------------------------------------------------------------------------------------ lock recorder

type LockRec struct {
	Read, Write []string
	Step        int64
}

type recLocker struct {
	inner command.Locker
	mu    sync.Mutex
	Recs  []LockRec
	step  *atomic.Int64
}

func (l *recLocker) Lock(ctx context.Context, a command.Accounts) (command.Unlock, error) {
	l.mu.Lock()
	l.Recs = append(l.Recs, LockRec{Read: append([]string{}, a.Read...), Write: append([]string{}, a.Write...), Step: l.step.Load()})
	l.mu.Unlock()
	return l.inner.Lock(ctx, a)
}

// ------------------------------------------------------------------------------------------------ environment

type Env struct {
	step     atomic.Int64
	genN     atomic.Int64
	store    *MonStore
	bus      *busRec
	hist     *History
	compiler *command.Compiler
	locks    []*recLocker
	initErrs []string
	gensMu   sync.Mutex
	gens     []*Generation
}

func (e *Env) shutdown() {
	e.gensMu.Lock()
	gens := e.gens
	e.gens = nil
	e.gensMu.Unlock()
	for _, g := range gens {
		if g.dead.Load() {
			continue
		}
		go func(g *Generation) {
			defer func() { _ = recover() }()
			g.cmd.Close() // blocks for good if the runner is gone or its worker is parked: then only this goroutine stays
		}(g)
	}
}

func NewEnv() *Env {
	e := &Env{hist: &History{}, compiler: command.NewCompiler(64)}
	e.store = NewMonStore(&e.step, &e.genN)
	e.bus = &busRec{step: &e.step, store: e.store}
	return e
}

type Generation struct {
	n    int
	http http.Handler
	cmd  *command.Commander
	dead atomic.Bool
	why  atomic.Value
}

// NewGeneration = what engine.Ledger.Start does: command.New + Init + go Run (Run's deliberate panic is contained).
func (e *Env) NewGeneration(workerCtx context.Context) (*Generation, error) {
	g := &Generation{n: int(e.genN.Add(1))}
	lk := &recLocker{inner: command.NewDefaultLocker(), step: &e.step}
	e.locks = append(e.locks, lk)
	g.cmd = command.New(e.store, lk, e.compiler, command.NewReferencer(), bus.NewLedgerMonitor(e.bus, "ledger0"))
	if err := g.cmd.Init(context.Background()); err != nil {
		return nil, err
	}
	g.http = api.NewRouter(&apiback.MonBackend{Engine: g.cmd}, health.NewHealthController(nil), metrics.NewNoOpRegistry(), auth.NewNoAuth(), false)
	go func() {
		defer func() {
			if p := recover(); p != nil {
				g.dead.Store(true)
				g.why.Store(fmt.Sprint(p))
			}
		}()
		g.cmd.Run(workerCtx)
	}()
	e.gensMu.Lock()
	e.gens = append(e.gens, g)
	e.gensMu.Unlock()
	return g, nil
}

func classify(err error) string {
	if err == nil {
		return ""
	}
	s := err.Error()
	switch {
	case machine.IsInsufficientFundError(err):
		return "insufficient"
	case command.IsInvalidTransactionError(err, command.ErrInvalidTransactionCodeConflict):
		return "conflict"
	case command.IsInvalidTransactionError(err, command.ErrInvalidTransactionCodeCompilationFailed):
		return "compile"
	case command.IsInvalidTransactionError(err, command.ErrInvalidTransactionCodeNoPostings):
		return "no-postings"
	case command.IsInvalidTransactionError(err, command.ErrInvalidTransactionCodeNoScript):
		return "no-script"
	case command.IsRevertError(err, command.ErrRevertTransactionCodeAlreadyReverted):
		return "already-reverted"
	case command.IsRevertError(err, command.ErrRevertTransactionCodeOccurring):
		return "revert-occurring"
	case command.IsRevertError(err, command.ErrRevertTransactionCodeNotFound):
		return "revert-not-found"
	case command.IsSaveMetaError(err, command.ErrSaveMetaCodeTransactionNotFound), command.IsDeleteMetaError(err, command.ErrSaveMetaCodeTransactionNotFound):
		return "meta-tx-not-found"
	case command.IsErrMachine(err):
		return "machine"
	case strings.Contains(s, "already taken"):
		return "ik-in-use"
	case strings.Contains(s, "injected"):
		return "store-error"
	case strings.Contains(s, "context canceled"):
		return "cancelled"
	}
	return "other"
}

func (op Op) runScript() ledger.RunScript {
	md := metadata.Metadata{}
	for k, v := range op.Meta {
		md[k] = v
	}
	var ts ledger.Time
	if op.Timestamp != "" {
		ts, _ = ledger.ParseTime(op.Timestamp)
	}
	if op.Kind == "postings" {
		td := ledger.TransactionData{Metadata: md, Timestamp: ts, Reference: op.Reference}
		for _, p := range op.Postings {
			td.Postings = append(td.Postings, ledger.Posting{Source: p.Source, Destination: p.Destination, Amount: p.big(), Asset: p.Asset})
		}
		return ledger.TxToScriptData(td, false)
	}
	vars := map[string]string{}
	for k, v := range op.Vars {
		vars[k] = v
	}
	return ledger.RunScript{Script: ledger.Script{Plain: op.Plain, Vars: vars}, Timestamp: ts, Metadata: md, Reference: op.Reference}
}

func (op Op) target() any {
	if op.TargetType == ledger.MetaTargetTypeTransaction {
		n, _ := new(big.Int).SetString(op.TargetID, 10)
		return n
	}
	return op.TargetID
}

// execOp: one client call on the commander; a panic escaping the call is part of the result.
func execOp(ctx context.Context, g *Generation, op Op) (res *Result) {
	cmd := g.cmd
	defer func() {
		if p := recover(); p != nil {
			st := string(debug.Stack())
			if len(st) > 3000 {
				st = st[:3000]
			}
			res = &Result{Panic: fmt.Sprint(p) + "\n" + st, Class: "panic"}
		}
	}()
	params := command.Parameters{DryRun: op.DryRun, IdempotencyKey: op.IK}
	var tx *ledger.Transaction
	var err error
	if op.Via != "" && op.Kind == "postings" {
		return execHTTP(ctx, g, op)
	}
	switch op.Kind {
	case "script", "postings":
		tx, err = cmd.CreateTransaction(ctx, params, op.runScript())
	case "revert":
		id, _ := new(big.Int).SetString(op.TxID, 10)
		tx, err = cmd.RevertTransaction(ctx, params, id, op.Force)
	case "savemeta":
		md := metadata.Metadata{}
		for k, v := range op.Meta {
			md[k] = v
		}
		err = cmd.SaveMeta(ctx, params, op.TargetType, op.target(), md)
	case "delmeta":
		err = cmd.DeleteMetadata(ctx, params, op.TargetType, op.target(), op.Key)
	}
	if err != nil {
		return &Result{Class: classify(err), Err: firstLine(err.Error())}
	}
	r := &Result{OK: true, raw: tx, Tx: txJ(tx)}
	if tx != nil {
		r.TxID = tx.ID.String()
	}
	return r
}

func firstLine(s string) string {
	if i := strings.IndexByte(s, '\n'); i >= 0 {
		s = s[:i]
	}
	if len(s) > 240 {
		s = s[:240]
	}
	return s
}

// ------------------------------------------------------------------------------------------------ running a phase

type ClientPlan struct {
	Name string
	Ops  []Op
}

type PhaseResult struct {
	Sched   *Scheduler
	Died    bool
	Stalled string
	InitErr string
}

// RunPhaseControlled: one generation, the given clients, under the controlled scheduler.
func (e *Env) RunPhaseControlled(s *Scheduler, plans []ClientPlan) PhaseResult {
	e.store.SetGate(s.Gate)
	workerCtx := withGate(s.worker.Ctx(context.Background()), s.Gate)
	g, err := e.NewGeneration(workerCtx)
	if err != nil {
		return PhaseResult{Sched: s, InitErr: err.Error()}
	}
	s.GenDead = &g.dead
	var starts []func()
	for _, p := range plans {
		p := p
		t := s.NewTask(p.Name)
		ctx := t.Ctx(context.Background())
		starts = append(starts, func() {
			verifhook.Yield(ctx, "client.start")
			for _, op := range p.Ops {
				rec := e.hist.call(p.Name, g.n, op, e.step.Add(1))
				rec.LogsAtCall, rec.MsgsAtCall = e.counts()
				octx := ctx
				if op.CancelAt > 0 {
					var cancel context.CancelFunc
					octx, cancel = context.WithCancel(ctx)
					t.cancelAfter, t.cancelFn = op.CancelAt, cancel
				}
				res := execOp(octx, g, op)
				t.cancelAfter, t.cancelFn = 0, nil
				rec.LogsAtRet, rec.MsgsAtRet = e.counts()
				e.hist.ret(rec, res, e.step.Add(1))
				verifhook.Yield(ctx, "client.next")
			}
			t.send(event{t, evDone, ""})
		})
	}
	s.Run(starts)
	return PhaseResult{Sched: s, Died: s.Died, Stalled: s.Stalled}
}

// RunPhaseFree: one generation, clients as plain goroutines, hooks = random yields (race / stress mode).
func (e *Env) RunPhaseFree(seed uint64, plans []ClientPlan, timeout time.Duration) (stalled string) {
	f := &freeCtl{}
	f.seed.Store(seed)
	e.store.SetGate(f.Gate)
	base := verifhook.WithController(context.Background(), f)
	g, err := e.NewGeneration(withGate(base, f.Gate))
	if err != nil {
		return "init: " + err.Error()
	}
	var wg sync.WaitGroup
	for _, p := range plans {
		p := p
		wg.Add(1)
		go func() {
			defer wg.Done()
			for _, op := range p.Ops {
				rec := e.hist.call(p.Name, g.n, op, e.step.Add(1))
				octx := base
				if op.CancelAt > 0 {
					var cancel context.CancelFunc
					octx, cancel = context.WithCancel(base)
					d := time.Duration(f.rnd()%uint64(op.CancelAt*120)) * time.Microsecond
					go func() { time.Sleep(d); cancel() }()
				}
				res := execOp(octx, g, op)
				e.hist.ret(rec, res, e.step.Add(1))
			}
		}()
	}
	done := make(chan struct{})
	go func() { wg.Wait(); close(done) }()
	select {
	case <-done:
		return ""
	case <-time.After(timeout):
		dumpStacks()
		return "clients did not finish within " + timeout.String()
	}
}

// execHTTP: a posting-mode request through the real v1 / v2 handler (JSON decoding, validation, error mapping).
func execHTTP(ctx context.Context, g *Generation, op Op) *Result {
	type posting struct {
		Source      string          `json:"source"`
		Destination string          `json:"destination"`
		Amount      json.RawMessage `json:"amount"`
		Asset       string          `json:"asset"`
	}
	body := map[string]any{"metadata": op.Meta}
	var ps []posting
	for _, p := range op.Postings {
		ps = append(ps, posting{p.Source, p.Destination, json.RawMessage(p.Amount), p.Asset})
	}
	body["postings"] = ps
	if op.Reference != "" {
		body["reference"] = op.Reference
	}
	if op.Timestamp != "" {
		body["timestamp"] = op.Timestamp
	}
	b, _ := json.Marshal(body)
	if op.Via == "bulk" {
		return execBulk(ctx, g, op, b)
	}
	target := "/api/ledger/v2/ledger0/transactions"
	if op.Via == "v1" {
		target = "/api/ledger/ledger0/transactions"
	}
	q := ""
	if op.DryRun {
		q = map[string]string{"v2": "?dryRun=true", "v1": "?preview=true"}[op.Via]
	} else if op.PreviewParam != "" { // the option spelled out as off
		q = map[string]string{"v2": "?dryRun=", "v1": "?preview="}[op.Via] + op.PreviewParam
	}
	req, err := http.NewRequestWithContext(ctx, "POST", "http://ledger.test"+target+q, bytes.NewReader(b))
	if err != nil {
		return &Result{Class: "other", Err: err.Error()}
	}
	req.Header.Set("Content-Type", "application/json")
	if op.IK != "" {
		req.Header.Set("Idempotency-Key", op.IK)
	}
	w := httptest.NewRecorder()
	g.http.ServeHTTP(w, req)
	if w.Code >= 200 && w.Code < 300 {
		var tx ledger.Transaction
		if op.Via == "v1" {
			var out struct {
				Data []struct {
					ledger.Transaction
					TxID *big.Int `json:"txid"`
				} `json:"data"`
			}
			if err := json.Unmarshal(w.Body.Bytes(), &out); err != nil || len(out.Data) != 1 {
				return &Result{Class: "other", Err: "unreadable v1 response: " + firstLine(w.Body.String())}
			}
			tx = out.Data[0].Transaction
			tx.ID = out.Data[0].TxID
		} else {
			var out struct {
				Data ledger.Transaction `json:"data"`
			}
			if err := json.Unmarshal(w.Body.Bytes(), &out); err != nil {
				return &Result{Class: "other", Err: "unreadable v2 response: " + firstLine(w.Body.String())}
			}
			tx = out.Data
		}
		if tx.ID == nil {
			return &Result{Class: "other", Err: "response without transaction id: " + firstLine(w.Body.String())}
		}
		return &Result{OK: true, raw: &tx, Tx: txJ(&tx), TxID: tx.ID.String()}
	}
	var e struct {
		ErrorCode    string `json:"errorCode"`
		ErrorMessage string `json:"errorMessage"`
	}
	_ = json.Unmarshal(w.Body.Bytes(), &e)
	cls := map[string]string{"INSUFFICIENT_FUND": "insufficient", "CONFLICT": "conflict", "VALIDATION": "validation", "COMPILATION_FAILED": "compile", "SCRIPT_COMPILATION_FAILED": "compile", "NO_POSTINGS": "no-postings", "INTERNAL": "other"}[e.ErrorCode]
	if cls == "" {
		cls = "http-" + fmt.Sprint(w.Code)
	}
	return &Result{Class: cls, Err: firstLine(e.ErrorCode + ": " + e.ErrorMessage)}
}

// execBulk: the posting request as the second CREATE_TRANSACTION element of a bulk whose first element is a decoy with
// its own metadata, reference and timestamp (elements must not influence each other).
func execBulk(ctx context.Context, g *Generation, op Op, element []byte) *Result {
	decoy := fmt.Sprintf(`{"postings":[{"source":"world","destination":"decoy","amount":1,"asset":"USD"}],"metadata":{"req":"%s-decoy","decoy":"x"},"reference":"decoy-%s","timestamp":"2020-01-01T00:00:00Z"}`, op.Tag, op.Tag)
	body := fmt.Sprintf(`[{"action":"CREATE_TRANSACTION","data":%s},{"action":"CREATE_TRANSACTION","ik":%q,"data":%s}]`, decoy, op.IK, element)
	req, err := http.NewRequestWithContext(ctx, "POST", "http://ledger.test/api/ledger/v2/ledger0/_bulk?continueOnFailure=true", bytes.NewReader([]byte(body)))
	if err != nil {
		return &Result{Class: "other", Err: err.Error()}
	}
	req.Header.Set("Content-Type", "application/json")
	w := httptest.NewRecorder()
	g.http.ServeHTTP(w, req)
	var out struct {
		Data []struct {
			ErrorCode        string          `json:"errorCode"`
			ErrorDescription string          `json:"errorDescription"`
			ResponseType     string          `json:"responseType"`
			Data             json.RawMessage `json:"data"`
		} `json:"data"`
	}
	if err := json.Unmarshal(w.Body.Bytes(), &out); err != nil || len(out.Data) != 2 {
		return &Result{Class: "bulk-unreadable", Err: firstLine(w.Body.String())}
	}
	el := out.Data[1]
	if el.ErrorCode != "" {
		cls := map[string]string{"INSUFFICIENT_FUND": "insufficient", "CONFLICT": "conflict", "VALIDATION": "validation", "INTERNAL": "other"}[el.ErrorCode]
		if cls == "" {
			cls = "bulk-" + el.ErrorCode
		}
		return &Result{Class: cls, Err: firstLine(el.ErrorCode + ": " + el.ErrorDescription)}
	}
	var tx ledger.Transaction
	if err := json.Unmarshal(el.Data, &tx); err != nil || tx.ID == nil {
		return &Result{Class: "bulk-unreadable", Err: firstLine(string(el.Data))}
	}
	return &Result{OK: true, raw: &tx, Tx: txJ(&tx), TxID: tx.ID.String()}
}
