package apiback

import (
	"context"
	"math/big"
	"sync"

	ledger "github.com/formancehq/ledger/internal"
	"github.com/formancehq/ledger/internal/api/backend"
	"github.com/formancehq/ledger/internal/engine"
	"github.com/formancehq/ledger/internal/engine/command"
	"github.com/formancehq/ledger/internal/storage/driver"
	"github.com/formancehq/ledger/internal/storage/ledgerstore"
	"github.com/formancehq/ledger/internal/storage/systemstore"
	sharedapi "github.com/formancehq/stack/libs/go-libs/api"
	"github.com/formancehq/stack/libs/go-libs/metadata"
	"github.com/formancehq/stack/libs/go-libs/migrations"
)

// Call: one invocation of a backend.Ledger method, recorded in arrival order.
type Call struct {
	Ledger string
	Method string
	Params command.Parameters
	Script *ledger.RunScript
	ID     *big.Int
	Force  bool
	Target string
	TID    any
	Meta   metadata.Metadata
	Key    string
}

func (c Call) IsWrite() bool {
	switch c.Method {
	case "CreateTransaction", "RevertTransaction", "SaveMeta", "DeleteMetadata":
		return true
	}
	return false
}

// MonBackend: monitoring implementation of backend.Backend / backend.Ledger.
type MonBackend struct {
	mu     sync.Mutex
	Calls  []Call
	Decide func(c Call) error // outcome of write calls (nil = success)
	// Stores: when set for a ledger name, read methods are served by the real *ledgerstore.Store (on a recording driver)
	Stores map[string]*ledgerstore.Store
	// Engine: when set, write methods are executed by it (a real command.Commander) instead of being scripted
	Engine WriteEngine
	nextTx int64
}

// WriteEngine: the four write methods of backend.Ledger (implemented by *command.Commander).
type WriteEngine interface {
	CreateTransaction(ctx context.Context, parameters command.Parameters, data ledger.RunScript) (*ledger.Transaction, error)
	RevertTransaction(ctx context.Context, parameters command.Parameters, id *big.Int, force bool) (*ledger.Transaction, error)
	SaveMeta(ctx context.Context, parameters command.Parameters, targetType string, targetID any, m metadata.Metadata) error
	DeleteMetadata(ctx context.Context, parameters command.Parameters, targetType string, targetID any, key string) error
}

func (b *MonBackend) store(name string) *ledgerstore.Store {
	if b.Stores == nil {
		return nil
	}
	return b.Stores[name]
}

func (b *MonBackend) record(c Call) {
	b.mu.Lock()
	b.Calls = append(b.Calls, c)
	b.mu.Unlock()
}

func (b *MonBackend) Take() []Call {
	b.mu.Lock()
	defer b.mu.Unlock()
	out := b.Calls
	b.Calls = nil
	return out
}

func (b *MonBackend) GetLedgerEngine(ctx context.Context, name string) (backend.Ledger, error) {
	return &monLedger{b: b, name: name}, nil
}
func (b *MonBackend) GetLedger(ctx context.Context, name string) (*systemstore.Ledger, error) {
	return &systemstore.Ledger{Name: name, Bucket: name}, nil
}
func (b *MonBackend) ListLedgers(ctx context.Context, q systemstore.ListLedgersQuery) (*sharedapi.Cursor[systemstore.Ledger], error) {
	return &sharedapi.Cursor[systemstore.Ledger]{}, nil
}
func (b *MonBackend) CreateLedger(ctx context.Context, name string, configuration driver.LedgerConfiguration) error {
	b.record(Call{Ledger: name, Method: "CreateLedger"})
	return nil
}
func (b *MonBackend) GetVersion() string { return "verif" }

type monLedger struct {
	b    *MonBackend
	name string
}

func (l *monLedger) decide(c Call) error {
	l.b.record(c)
	if l.b.Decide != nil {
		return l.b.Decide(c)
	}
	return nil
}

func (l *monLedger) GetAccountWithVolumes(ctx context.Context, q ledgerstore.GetAccountQuery) (*ledger.ExpandedAccount, error) {
	l.b.record(Call{Ledger: l.name, Method: "GetAccountWithVolumes"})
	if s := l.b.store(l.name); s != nil {
		return s.GetAccountWithVolumes(ctx, q)
	}
	a := ledger.NewExpandedAccount(q.Addr)
	return &a, nil
}
func (l *monLedger) GetAccountsWithVolumes(ctx context.Context, q ledgerstore.GetAccountsQuery) (*sharedapi.Cursor[ledger.ExpandedAccount], error) {
	l.b.record(Call{Ledger: l.name, Method: "GetAccountsWithVolumes"})
	if s := l.b.store(l.name); s != nil {
		return s.GetAccountsWithVolumes(ctx, q)
	}
	return &sharedapi.Cursor[ledger.ExpandedAccount]{}, nil
}
func (l *monLedger) CountAccounts(ctx context.Context, q ledgerstore.GetAccountsQuery) (int, error) {
	l.b.record(Call{Ledger: l.name, Method: "CountAccounts"})
	if s := l.b.store(l.name); s != nil {
		return s.CountAccounts(ctx, q)
	}
	return 0, nil
}
func (l *monLedger) GetAggregatedBalances(ctx context.Context, q ledgerstore.GetAggregatedBalanceQuery) (ledger.BalancesByAssets, error) {
	l.b.record(Call{Ledger: l.name, Method: "GetAggregatedBalances"})
	if s := l.b.store(l.name); s != nil {
		return s.GetAggregatedBalances(ctx, q)
	}
	return ledger.BalancesByAssets{}, nil
}
func (l *monLedger) GetMigrationsInfo(ctx context.Context) ([]migrations.Info, error) {
	return nil, nil
}
func (l *monLedger) Stats(ctx context.Context) (engine.Stats, error) { return engine.Stats{}, nil }
func (l *monLedger) GetLogs(ctx context.Context, q ledgerstore.GetLogsQuery) (*sharedapi.Cursor[ledger.ChainedLog], error) {
	l.b.record(Call{Ledger: l.name, Method: "GetLogs"})
	if s := l.b.store(l.name); s != nil {
		return s.GetLogs(ctx, q)
	}
	return &sharedapi.Cursor[ledger.ChainedLog]{}, nil
}
func (l *monLedger) CountTransactions(ctx context.Context, q ledgerstore.GetTransactionsQuery) (int, error) {
	l.b.record(Call{Ledger: l.name, Method: "CountTransactions"})
	if s := l.b.store(l.name); s != nil {
		return s.CountTransactions(ctx, q)
	}
	return 0, nil
}
func (l *monLedger) GetTransactions(ctx context.Context, q ledgerstore.GetTransactionsQuery) (*sharedapi.Cursor[ledger.ExpandedTransaction], error) {
	l.b.record(Call{Ledger: l.name, Method: "GetTransactions"})
	if s := l.b.store(l.name); s != nil {
		return s.GetTransactions(ctx, q)
	}
	return &sharedapi.Cursor[ledger.ExpandedTransaction]{}, nil
}
func (l *monLedger) GetTransactionWithVolumes(ctx context.Context, q ledgerstore.GetTransactionQuery) (*ledger.ExpandedTransaction, error) {
	l.b.record(Call{Ledger: l.name, Method: "GetTransactionWithVolumes"})
	if s := l.b.store(l.name); s != nil {
		return s.GetTransactionWithVolumes(ctx, q)
	}
	return &ledger.ExpandedTransaction{Transaction: *ledger.NewTransaction()}, nil
}
func (l *monLedger) IsDatabaseUpToDate(ctx context.Context) (bool, error) { return true, nil }

func (l *monLedger) CreateTransaction(ctx context.Context, p command.Parameters, data ledger.RunScript) (*ledger.Transaction, error) {
	c := Call{Ledger: l.name, Method: "CreateTransaction", Params: p, Script: &data}
	if l.b.Engine != nil {
		l.b.record(c)
		tx, err := l.b.Engine.CreateTransaction(ctx, p, data)
		if err != nil {
			return nil, engine.NewCommandError(err) // as engine.Ledger does
		}
		return tx, nil
	}
	if err := l.decide(c); err != nil {
		return nil, err
	}
	l.b.mu.Lock()
	l.b.nextTx++
	id := l.b.nextTx
	l.b.mu.Unlock()
	tx := ledger.NewTransaction().WithID(big.NewInt(id)).WithMetadata(data.Metadata).WithReference(data.Reference)
	return tx, nil
}
func (l *monLedger) RevertTransaction(ctx context.Context, p command.Parameters, id *big.Int, force bool) (*ledger.Transaction, error) {
	c := Call{Ledger: l.name, Method: "RevertTransaction", Params: p, ID: id, Force: force}
	if l.b.Engine != nil {
		l.b.record(c)
		tx, err := l.b.Engine.RevertTransaction(ctx, p, id, force)
		if err != nil {
			return nil, engine.NewCommandError(err)
		}
		return tx, nil
	}
	if err := l.decide(c); err != nil {
		return nil, err
	}
	l.b.mu.Lock()
	l.b.nextTx++
	nid := l.b.nextTx
	l.b.mu.Unlock()
	m := metadata.Metadata{}
	if id != nil {
		m["reverts"] = id.String()
	}
	return ledger.NewTransaction().WithID(big.NewInt(nid)).WithMetadata(m), nil
}
func (l *monLedger) SaveMeta(ctx context.Context, p command.Parameters, targetType string, targetID any, m metadata.Metadata) error {
	if l.b.Engine != nil {
		l.b.record(Call{Ledger: l.name, Method: "SaveMeta", Params: p, Target: targetType, TID: targetID, Meta: m})
		return engine.NewCommandError(l.b.Engine.SaveMeta(ctx, p, targetType, targetID, m))
	}
	return l.decide(Call{Ledger: l.name, Method: "SaveMeta", Params: p, Target: targetType, TID: targetID, Meta: m})
}
func (l *monLedger) DeleteMetadata(ctx context.Context, p command.Parameters, targetType string, targetID any, key string) error {
	if l.b.Engine != nil {
		l.b.record(Call{Ledger: l.name, Method: "DeleteMetadata", Params: p, Target: targetType, TID: targetID, Key: key})
		return engine.NewCommandError(l.b.Engine.DeleteMetadata(ctx, p, targetType, targetID, key))
	}
	return l.decide(Call{Ledger: l.name, Method: "DeleteMetadata", Params: p, Target: targetType, TID: targetID, Key: key})
}

var _ backend.Backend = (*MonBackend)(nil)
var _ backend.Ledger = (*monLedger)(nil)
