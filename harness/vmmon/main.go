// vmmon: monitors over the Numscript compiler + VM (properties C01, C03, C08, C12).
package main

import (
	"regexp"
	"fmt"
	"math/big"
	"os"
	"runtime/debug"
	"sort"
	"strings"

	ng "github.com/formancehq/ledger/internal/verif/numgen"
	vc "github.com/formancehq/ledger/internal/verif/vcommon"
)

func stackNow() string { return string(debug.Stack()) }

func main() {
	cfg := vc.ParseFlags()
	rep := vc.NewReport(cfg)
	switch cfg.Prop {
	case "PROBE":
		runProbe(cfg.Replay)
		return
	case "C01":
		runC01(cfg, rep)
	case "C03":
		runC03(cfg, rep)
	case "C08":
		if cfg.Mode == "cache" {
			runC08Cache(cfg, rep)
		} else {
			runC08(cfg, rep)
		}
	case "C12":
		runC12(cfg, rep)
	default:
		fmt.Fprintln(os.Stderr, "vmmon: unknown property", cfg.Prop)
		os.Exit(3)
	}
	rep.Write(true)
}

func countFeatures(rep *vc.Report, c *ng.Case) {
	for k, v := range c.Feature {
		rep.Add("g_"+k, int64(v))
	}
}

// --------------------------------------------------------------------------------------------- C08

var amountRe = regexp.MustCompile(`\[([A-Z][A-Z0-9/]*) ([0-9]+)\]`)
var varMonetaryRe = regexp.MustCompile(`^([A-Z][A-Z0-9/]*) ([0-9]+)$`)

func runC08(cfg *vc.Config, rep *vc.Report) {
	cfg.Cases(40000, 3000000, func(i int, r *vc.Rand) {
		g := ng.FullCfg()
		g.Break = r.Chance(1, 8)
		c := ng.Generate(r, g)
		text := c.Prog.String()
		rep.Current(map[string]any{"index": i, "script": text, "vars": c.World.Vars})
		rep.Eval()
		rep.Inc("programs")
		countFeatures(rep, c)
		ref := ng.Eval(c.Prog, c.World)
		if c.Broken == "" && r.Chance(1, 20) {
			// a character outside the language's alphabet anywhere in an otherwise valid text: the language rejects the script
			// (dropping the character would often leave a valid - and different - program)
			pos := r.Intn(len(text) + 1)
			text = text[:pos] + vc.Pick(r, []string{"!", "#", ";", "&", "^", "~", "?", "'", "é", "<", "|", "\\", "§", "`"}) + text[pos:]
			c.Broken = "illegal_character"
			ref = ng.Outcome{Class: ng.ClsRefused}
			rep.Current(map[string]any{"index": i, "script": text, "vars": c.World.Vars})
		}
		if c.Broken == "" && r.Chance(1, 16) {
			// the same program with amounts spelled with leading zeros (the grammar's NUMBER is [0-9]+, and a variable value is
			// "ASSET digits"): the meaning does not change
			n := 0
			text = amountRe.ReplaceAllStringFunc(text, func(m string) string {
				if r.Chance(1, 2) {
					n++
					return amountRe.ReplaceAllString(m, "[${1} "+strings.Repeat("0", r.Range(1, 3))+"${2}]")
				}
				return m
			})
			w2 := *c.World
			w2.Vars = map[string]string{}
			for k, v := range c.World.Vars {
				if mm := varMonetaryRe.FindStringSubmatch(v); mm != nil && r.Chance(1, 2) {
					v = mm[1] + " " + strings.Repeat("0", r.Range(1, 3)) + mm[2]
					n++
				}
				w2.Vars[k] = v
			}
			c.World = &w2
			if n > 0 {
				rep.Inc("programs_with_leading_zero_amounts")
			}
			rep.Current(map[string]any{"index": i, "script": text, "vars": c.World.Vars})
		}
		real := runReal(text, c.World, freshCompile)
		rep.Inc("disagreements_checked")
		rep.Inc("ref_" + ref.Class)
		rep.Inc("real_" + real.Class)
		if c.Broken != "" {
			rep.Inc("rule_breaking")
			if ref.Class != ng.ClsRefused {
				rep.Inconc("internal: rule-breaking case not refused by the reference: " + c.Broken + "\n" + text)
			}
		}
		if ref.Class == ng.ClsOK && len(ng.Normalize(ref.Postings)) > 0 {
			rep.DistinctCase(vc.Hash64(text, vc.MustJSON(c.World.Vars), ng.PostingsString(ref.Postings)))
		}
		if rule, detail := compareOutcome(ref, real); rule != "" {
			sig := rule
			if c.Broken != "" {
				sig = rule + ":rule=" + c.Broken
			}
			rep.Violate(sig, detail, i, dump(i, c, text, &ref, &real))
		} else if ref.Class == ng.ClsOK {
			// compiling the same text again gives the same behaviour
			real2 := runReal(text, c.World, freshCompile)
			if rule, detail := compareOutcome(ref, real2); rule != "" {
				rep.Violate("second-compilation:"+rule, detail, i, dump(i, c, text, &ref, &real2))
			}
			rep.Inc("recompiled")
		}
		if rep.WantSample() && ref.Class == ng.ClsOK && len(ref.Postings) > 1 {
			rep.Sample(map[string]any{"script": text, "vars": c.World.Vars, "reference_postings": ng.PostingsString(ng.Normalize(ref.Postings)), "real_postings": ng.PostingsString(ng.Normalize(real.Postings))})
		}
	})
}

// --------------------------------------------------------------------------------------------- C01

func key(acc, asset string) string { return acc + "|" + asset }

// overdrawCheck replays postings in order over the starting balances; returns "" or a description.
func overdrawCheck(c *ng.Case, ps []ng.Posting) (viol string, tight bool) {
	g, ok := ng.ComputeGrants(c.Prog, c.World)
	if !ok {
		return "", false
	}
	run := map[string]*big.Int{}
	get := func(a, as string) *big.Int {
		k := key(a, as)
		if run[k] == nil {
			run[k] = new(big.Int)
			if m, ok := c.World.Balances[a]; ok && m[as] != nil {
				run[k].Set(m[as])
			}
		}
		return run[k]
	}
	for i, p := range ps {
		if p.Amt.Sign() < 0 {
			return fmt.Sprintf("posting #%d %s is negative", i, p), false
		}
		if p.Amt.Sign() == 0 {
			continue
		}
		if p.Src != "world" {
			b := get(p.Src, p.Asset)
			b.Sub(b, p.Amt)
			k := key(p.Src, p.Asset)
			if !g.Unbounded[k] {
				floor := new(big.Int)
				if od := g.Bounded[k]; od != nil && od.Sign() > 0 {
					floor.Neg(od)
				}
				if b.Cmp(floor) < 0 {
					return fmt.Sprintf("posting #%d %s overdraws %s: balance after = %s, floor = %s", i, p, p.Src, b, floor), false
				}
				if b.Cmp(floor) == 0 {
					tight = true
				}
			}
		}
		if p.Dst != "world" {
			b := get(p.Dst, p.Asset)
			b.Add(b, p.Amt)
		}
	}
	return "", tight
}

func runC01(cfg *vc.Config, rep *vc.Report) {
	cfg.Cases(40000, 3000000, func(i int, r *vc.Rand) {
		c := ng.Generate(r, ng.OverdrawCfg())
		text := c.Prog.String()
		rep.Current(map[string]any{"index": i, "script": text, "vars": c.World.Vars})
		rep.Eval()
		countFeatures(rep, c)
		ref := ng.Eval(c.Prog, c.World)
		real := runReal(text, c.World, freshCompile)
		rep.Inc("real_" + real.Class)
		switch real.Class {
		case "panic":
			rep.Violate(real.PanicSig, real.Err, i, dump(i, c, text, &ref, &real))
		case ng.ClsOK:
			v, tight := overdrawCheck(c, real.Postings)
			if tight {
				rep.Inc("tight_floor")
			}
			if len(real.Postings) > 0 {
				rep.DistinctCase(vc.Hash64(text, vc.MustJSON(c.World.Vars), vc.MustJSON(dump(i, c, text, nil, nil).Balances)))
			}
			if v != "" {
				rep.Violate("overdraw:"+overdrawShape(c), v, i, dump(i, c, text, &ref, &real))
			} else if ref.Class == ng.ClsInsufficient {
				rep.Violate("accepted-although-sources-cannot-cover", "reference: "+ref.Why, i, dump(i, c, text, &ref, &real))
			}
		case ng.ClsInsufficient:
			if len(real.Postings) != 0 {
				rep.Violate("postings-on-rejection", "", i, dump(i, c, text, &ref, &real))
			}
			if ref.Class == ng.ClsOK && ref.Quirk == "" {
				rep.Violate("insufficient-although-covered", "reference accepts: "+ng.PostingsString(ref.Postings), i, dump(i, c, text, &ref, &real))
			}
		case ng.ClsRefused:
			if ref.Class == ng.ClsInsufficient {
				rep.Violate("shortfall-reported-as-other-error", real.Err, i, dump(i, c, text, &ref, &real))
			}
		}
		if rep.WantSample() && real.Class == ng.ClsOK && len(real.Postings) > 2 {
			rep.Sample(dump(i, c, text, &ref, &real))
		}
	})
}

// overdrawShape: a coarse description of what the script contains, to keep known-finding signatures specific.
func overdrawShape(c *ng.Case) string {
	var fs []string
	for _, f := range []string{"stmt_save_all", "stmt_save", "src_overdraft_bounded", "src_overdraft_unbounded", "src_allotment", "send_all"} {
		if c.Feature[f] > 0 {
			fs = append(fs, strings.TrimPrefix(strings.TrimPrefix(f, "stmt_"), "src_"))
		}
	}
	neg := false
	for _, m := range c.World.Balances {
		for _, b := range m {
			if b.Sign() < 0 {
				neg = true
			}
		}
	}
	if neg {
		fs = append(fs, "negbal")
	}
	sort.Strings(fs)
	return strings.Join(fs, "+")
}
