package main

import (
	"encoding/json"
	"fmt"
	"math/big"
	"os"

	ng "github.com/formancehq/ledger/internal/verif/numgen"
)

// probe: run one hand-written case (dev aid and manual replay): vmmon -prop PROBE -replay case.json -out /dev/null
// case.json: {"script": "...", "vars": {...}, "balances": {"acc": {"USD": "10"}}, "meta": {"acc": {"k": "v"}}}
func runProbe(path string) {
	var in struct {
		Script   string
		Vars     map[string]string
		Balances map[string]map[string]string
		Meta     map[string]map[string]string
	}
	b, err := os.ReadFile(path)
	if err == nil {
		err = json.Unmarshal(b, &in)
	}
	if err != nil {
		fmt.Println("probe:", err)
		os.Exit(3)
	}
	w := &ng.World{Vars: in.Vars, Balances: map[string]map[string]*big.Int{}, Meta: in.Meta, TxMeta: map[string]string{}}
	if w.Vars == nil {
		w.Vars = map[string]string{}
	}
	for a, m := range in.Balances {
		w.Balances[a] = map[string]*big.Int{}
		for as, s := range m {
			n, _ := new(big.Int).SetString(s, 10)
			w.Balances[a][as] = n
		}
	}
	o := runReal(in.Script, w, freshCompile)
	fmt.Printf("real: %s stage=%s err=%q\n  postings: %s\n  txmeta: %s accmeta: %v\n", o.Class, o.Stage, o.Err, ng.PostingsString(o.Postings), ng.MetaString(o.TxMeta), o.AccMeta)
	if o.Class == "panic" {
		fmt.Println(o.PanicSig)
		fmt.Println(trimStack(o.Stack))
	}
}
