package main

import (
	"fmt"
	"math/big"

	ng "github.com/formancehq/ledger/internal/verif/numgen"
	vc "github.com/formancehq/ledger/internal/verif/vcommon"
)

// C03: single-send programs whose source leaves and destination leaves all use different accounts, so every
// quantity in the statement can be read off the postings.

type c03ctx struct {
	b      *ng.Binding
	asset  string
	out    map[string]*big.Int // total taken per source account
	in     map[string]*big.Int // total received per destination account
	report func(rule, detail string)
}

func sumOf(m map[string]*big.Int, accs []string) *big.Int {
	t := new(big.Int)
	for _, a := range accs {
		if m[a] != nil {
			t.Add(t, m[a])
		}
	}
	return t
}

// checkSource: caps and order. Returns the contribution of this subtree.
func (x *c03ctx) checkSource(s ng.Source) *big.Int {
	contrib := sumOf(x.out, x.b.SourceAccounts(s))
	switch s := s.(type) {
	case ng.SrcMaxed:
		if mx, ok := x.b.Expr(s.Max); ok && contrib.Cmp(mx.N) > 0 {
			x.report("source-max-exceeded", fmt.Sprintf("max %s from ... contributed %s", mx.N, contrib))
		}
		x.checkSource(s.Src)
	case ng.SrcInOrder:
		cs := make([]*big.Int, len(s.Srcs))
		for i, sub := range s.Srcs {
			cs[i] = x.checkSource(sub)
		}
		for j := 1; j < len(s.Srcs); j++ {
			if cs[j].Sign() <= 0 {
				continue
			}
			for i := 0; i < j; i++ {
				capI, ok := x.b.Capacity(s.Srcs[i], x.asset)
				if !ok || capI == nil {
					continue
				}
				if cs[i].Cmp(capI) < 0 {
					x.report("later-source-used-before-earlier-exhausted", fmt.Sprintf("source #%d gave %s of %s while source #%d gave %s", i, cs[i], capI, j, cs[j]))
				}
			}
		}
	case ng.SrcAccount:
		if capA, ok := x.b.Capacity(s, x.asset); ok && capA != nil && contrib.Cmp(capA) > 0 {
			x.report("account-gave-more-than-available", fmt.Sprintf("gave %s, balance+overdraft = %s", contrib, capA))
		}
	}
	return contrib
}

func (x *c03ctx) checkDestCaps(d ng.Dest) {
	switch d := d.(type) {
	case ng.DestInOrder:
		for i, k := range d.Dests {
			if k.Kept {
				continue
			}
			got := sumOf(x.in, x.b.DestAccounts(k.To))
			if mx, ok := x.b.Expr(d.Maxes[i]); ok && got.Cmp(mx.N) > 0 {
				x.report("destination-max-exceeded", fmt.Sprintf("max %s received %s", mx.N, got))
			}
			x.checkDestCaps(k.To)
		}
		if !d.Remaining.Kept {
			x.checkDestCaps(d.Remaining.To)
		}
	case ng.DestAllotment:
		for _, k := range d.Dests {
			if !k.Kept {
				x.checkDestCaps(k.To)
			}
		}
	}
}

func runC03(cfg *vc.Config, rep *vc.Report) {
	cfg.Cases(40000, 3000000, func(i int, r *vc.Rand) {
		scfg := ng.SingleCfg()
		if r.Chance(1, 12) { // one static rule broken (e.g. portions that do not add up): the send must be refused, not run short
			scfg.Break = true
			scfg.Accounts = ng.DefaultAccounts
			scfg.Disjoint = false
		}
		c := ng.Generate(r, scfg)
		if c.Broken != "" {
			text := c.Prog.String()
			rep.Current(map[string]any{"index": i, "script": text, "vars": c.World.Vars, "rule_broken": c.Broken})
			rep.Eval()
			rep.Inc("rule_breaking")
			real := runReal(text, c.World, freshCompile)
			if real.Class == "panic" {
				rep.Violate(real.PanicSig, real.Err, i, dump(i, c, text, nil, &real))
			} else if real.Class == ng.ClsOK {
				ref := ng.Eval(c.Prog, c.World)
				if ref.Class == ng.ClsRefused {
					rep.Violate("accepted-but-must-be-refused:rule="+c.Broken, ref.Why, i, dump(i, c, text, &ref, &real))
				}
			}
			return
		}
		// follow-up (one case in three): a second statement sends *everything* one of the first send's source accounts still
		// holds. "[ASSET *] moves exactly everything its sources can provide" then also says that what the first send took,
		// kept and gave back is what the machine remembers.
		followX, followAsset := "", ""
		if r.Chance(1, 3) {
			if b0 := ng.Bind(c.Prog, c.World); b0 != nil {
				sd0 := c.Prog.Stmts[0].(ng.Send)
				var cands []string
				for _, a := range b0.SourceAccounts(sd0.Src) {
					if a != "world" {
						cands = append(cands, a)
					}
				}
				if len(cands) > 0 {
					followX, followAsset = vc.Pick(r, cands), b0.SendAsset(sd0)
					c.Prog.Stmts = append(c.Prog.Stmts, ng.Send{AllAsset: ng.LitAsset{Name: followAsset}, Src: ng.SrcAccount{Acc: ng.LitAccount{Addr: followX}}, Dst: ng.DestAccount{Acc: ng.LitAccount{Addr: "c03sink"}}})
				}
			}
		}
		text := c.Prog.String()
		rep.Current(map[string]any{"index": i, "script": text, "vars": c.World.Vars})
		rep.Eval()
		countFeatures(rep, c)
		real := runReal(text, c.World, freshCompile)
		rep.Inc("real_" + real.Class)
		if real.Class == "panic" {
			rep.Violate(real.PanicSig, real.Err, i, dump(i, c, text, nil, &real))
			return
		}
		ref := ng.Eval(c.Prog, c.World)
		if real.Class != ng.ClsOK {
			if ref.Class == ng.ClsOK && ref.Quirk == "" {
				rep.Violate("send-refused-although-defined:"+real.Class, real.Err, i, dump(i, c, text, &ref, &real))
			}
			return
		}
		b := ng.Bind(c.Prog, c.World)
		if b == nil {
			rep.Violate("accepted-but-must-be-refused", ref.Why, i, dump(i, c, text, &ref, &real))
			return
		}
		sd := c.Prog.Stmts[0].(ng.Send)
		var second []ng.Posting
		if followX != "" {
			var firstPs []ng.Posting
			for _, p := range real.Postings {
				if p.Dst == "c03sink" {
					second = append(second, p)
				} else {
					firstPs = append(firstPs, p)
				}
			}
			real.Postings = firstPs
			defer func() {
				// what X holds after the first send, by the postings the machine itself emitted
				bal := new(big.Int)
				if v := c.World.Balances[followX][followAsset]; v != nil {
					bal.Set(v)
				}
				for _, p := range firstPs {
					if p.Asset != followAsset {
						continue
					}
					if p.Src == followX {
						bal.Sub(bal, p.Amt)
					}
					if p.Dst == followX {
						bal.Add(bal, p.Amt)
					}
				}
				if bal.Sign() < 0 {
					bal.SetInt64(0)
				}
				moved := new(big.Int)
				for _, p := range second {
					if p.Src != followX || p.Asset != followAsset || p.Amt.Sign() < 0 {
						rep.Violate("follow-up-send-all:unexpected-posting", p.String(), i, dump(i, c, text, &ref, &real))
						return
					}
					moved.Add(moved, p.Amt)
				}
				rep.Inc("follow_up_send_all_checked")
				if bal.Sign() > 0 {
					rep.Inc("follow_up_send_all_nonzero")
				}
				if moved.Cmp(bal) != 0 {
					rep.Violate("follow-up-send-all-differs", fmt.Sprintf("after the first send %s holds %s %s (by the postings emitted), the following send [%s *] from it moved %s", followX, bal, followAsset, followAsset, moved), i, dump(i, c, text, &ref, &real))
				}
			}()
		}
		x := &c03ctx{b: b, asset: b.SendAsset(sd), out: map[string]*big.Int{}, in: map[string]*big.Int{}}
		nviol := 0
		x.report = func(rule, detail string) {
			nviol++
			rep.Violate(rule, detail, i, dump(i, c, text, &ref, &real))
		}
		total := new(big.Int)
		for _, p := range real.Postings {
			if p.Amt.Sign() < 0 {
				x.report("negative-posting", p.String())
			}
			if p.Asset != x.asset {
				x.report("posting-in-another-asset", p.String())
			}
			if x.out[p.Src] == nil {
				x.out[p.Src] = new(big.Int)
			}
			if x.in[p.Dst] == nil {
				x.in[p.Dst] = new(big.Int)
			}
			x.out[p.Src].Add(x.out[p.Src], p.Amt)
			x.in[p.Dst].Add(x.in[p.Dst], p.Amt)
			total.Add(total, p.Amt)
		}
		// the amount the send states
		var stated *big.Int
		if sd.Mon != nil {
			v, ok := b.Expr(sd.Mon)
			if !ok {
				return
			}
			stated = v.N
		} else {
			capS, ok := b.Capacity(sd.Src, x.asset)
			if !ok || capS == nil {
				return
			}
			stated = capS
			rep.Inc("send_all_checked")
		}
		leaves, ok := b.DestLeaves(sd.Dst, stated, x.asset)
		if !ok {
			x.report("accepted-but-destination-invalid", "")
			return
		}
		kept := new(big.Int)
		leftover := false
		want := map[string]*big.Int{}
		for _, l := range leaves {
			if l.Kept {
				kept.Add(kept, l.Amt)
				continue
			}
			if want[l.Acc] == nil {
				want[l.Acc] = new(big.Int)
			}
			want[l.Acc].Add(want[l.Acc], l.Amt)
		}
		if total.Cmp(new(big.Int).Sub(stated, kept)) != 0 {
			x.report("amount-moved-differs", fmt.Sprintf("stated %s, kept %s, moved %s", stated, kept, total))
		}
		for a, w := range want {
			got := x.in[a]
			if got == nil {
				got = new(big.Int)
			}
			if got.Cmp(w) != 0 {
				x.report("share-differs", fmt.Sprintf("destination %s should receive %s, received %s", a, w, got))
			}
		}
		for a, got := range x.in {
			if want[a] == nil && got.Sign() != 0 {
				x.report("unexpected-destination", fmt.Sprintf("%s received %s", a, got))
			}
		}
		// sources
		if al, isAl := sd.Src.(ng.SrcAllotment); isAl {
			shares, ok := b.Shares(al.Portions, stated)
			if ok {
				for k, sub := range al.Srcs {
					got := x.checkSource(sub)
					// kept funds are returned to the *last* contributors, so a branch may end below its share but never above
					if got.Cmp(shares[k]) > 0 {
						x.report("source-share-exceeded", fmt.Sprintf("branch #%d share %s gave %s", k, shares[k], got))
					}
					if kept.Sign() == 0 && got.Cmp(shares[k]) != 0 {
						x.report("source-share-differs", fmt.Sprintf("branch #%d share %s gave %s", k, shares[k], got))
					}
				}
				rep.Inc("src_allotment_checked")
			}
		} else {
			x.checkSource(sd.Src)
		}
		x.checkDestCaps(sd.Dst)
		// non-vacuity bookkeeping
		if kept.Sign() > 0 {
			rep.Inc("with_kept")
		}
		if hasLeftover(b, sd.Dst, stated, x.asset) {
			leftover = true
			rep.Inc("with_leftover_units")
		}
		if io, isIO := sd.Src.(ng.SrcInOrder); isIO && len(io.Srcs) > 1 {
			if sumOf(x.out, b.SourceAccounts(io.Srcs[len(io.Srcs)-1])).Sign() > 0 {
				rep.Inc("source_ran_dry_midlist")
			}
		}
		if stated.BitLen() > 64 {
			rep.Inc("over_64bit")
		}
		_ = leftover
		if total.Sign() > 0 {
			rep.DistinctCase(vc.Hash64(text, vc.MustJSON(c.World.Vars), vc.MustJSON(dump(i, c, text, nil, nil).Balances)))
		}
		if nviol == 0 && rep.WantSample() && len(real.Postings) > 2 {
			rep.Sample(dump(i, c, text, &ref, &real))
		}
	})
}

// hasLeftover: some allotment in the tree does not divide its amount exactly.
func hasLeftover(b *ng.Binding, d ng.Dest, amt *big.Int, asset string) bool {
	al, ok := d.(ng.DestAllotment)
	if !ok {
		return false
	}
	shares, ok := b.Shares(al.Portions, amt)
	if !ok {
		return false
	}
	// leftover exists iff the floored shares do not sum to amt: detect by re-flooring with amt-1 trick is overkill;
	// compare with exact rational shares instead
	for k, p := range al.Portions {
		if p.Kind == ng.PConst {
			r, _ := ng.ParsePortion(p.Text)
			x := new(big.Int).Mul(amt, r.Num())
			q, m := new(big.Int).QuoRem(x, r.Denom(), new(big.Int))
			if m.Sign() != 0 || q.Cmp(shares[k]) != 0 {
				return true
			}
		}
	}
	return false
}
