package main

import (
	"fmt"
	"sync"

	"github.com/formancehq/ledger/internal/engine/command"
	ng "github.com/formancehq/ledger/internal/verif/numgen"
	vc "github.com/formancehq/ledger/internal/verif/vcommon"
)

// outcomeString: what two executions of one text must agree on. The error text is part of it only for compile and run
// errors: which of several offending variables / balances is named first follows Go's map iteration order and differs
// from run to run of the very same program (thorough run, seed 1: two negative balances, either one reported).
func outcomeString(o realOutcome) string {
	msg := o.Err
	if o.Stage == "vars" || o.Stage == "resources" || o.Stage == "balances" {
		msg = ""
	}
	return fmt.Sprintf("%s|%s|%s|%s|%s|%v", o.Class, o.Stage, msg, ng.PostingsString(o.Postings), ng.MetaString(o.TxMeta), o.AccMeta) + o.PanicSig
}

type poolEntry struct {
	text   string
	world  *ng.World
	expect string
}

// runC08Cache: programs obtained through command.Compiler (LFU cache of size n) from 16 goroutines must behave like a
// fresh single-threaded compilation of the same text. The pool is larger than n (evictions) and contains look-alike
// texts (differing only in whitespace inside a string, in a comment marker, or by a suffix).
func runC08Cache(cfg *vc.Config, rep *vc.Report) {
	sizes := []int{1, 2, 3, 8, 1024}
	cfg.Cases(120, 6000, func(i int, r *vc.Rand) {
		n := sizes[i%len(sizes)]
		var pool []poolEntry
		add := func(text string, w *ng.World) {
			pool = append(pool, poolEntry{text: text, world: w, expect: outcomeString(runReal(text, w, freshCompile))})
		}
		nbase := 4 + r.Intn(4)
		for k := 0; k < nbase; k++ {
			g := ng.FullCfg()
			g.Break = r.Chance(1, 10)
			c := ng.Generate(r, g)
			t := c.Prog.String()
			add(t, c.World)
			switch r.Intn(4) {
			case 0: // whitespace inside a string literal
				add(t+"set_tx_meta(\"ws\", \"x y\")\n", c.World)
				add(t+"set_tx_meta(\"ws\", \"x  y\")\n", c.World)
			case 1: // a statement that is commented out in one text only
				add(t+"// nothing\nset_tx_meta(\"cm\", 1)\n", c.World)
				add(t+"// nothing set_tx_meta(\"cm\", 1)\n", c.World)
			case 2: // one text is a prefix of the other
				add(t+"set_tx_meta(\"sfx\", 2)\n", c.World)
			case 3: // same statements, different separators (invalid variant must stay refused)
				add(t+"set_tx_meta(\"a\", 1)\nset_tx_meta(\"b\", 2)\n", c.World)
				add(t+"set_tx_meta(\"a\", 1) set_tx_meta(\"b\", 2)\n", c.World)
			}
		}
		comp := command.NewCompiler(n)
		rep.Current(map[string]any{"index": i, "cache_size": n, "pool": len(pool)})
		var wg sync.WaitGroup
		execs := 60
		seeds := make([]*vc.Rand, 16)
		for gi := range seeds {
			seeds[gi] = r.Fork()
		}
		for gi := 0; gi < 16; gi++ {
			wg.Add(1)
			go func(gr *vc.Rand) {
				defer wg.Done()
				for e := 0; e < execs; e++ {
					p := pool[gr.Intn(len(pool))]
					got := outcomeString(runReal(p.text, p.world, comp.Compile))
					rep.Inc("cached_executions")
					if got != p.expect {
						rep.Violate("cached-program-behaves-differently", "fresh: "+p.expect+" | via cache(size="+fmt.Sprint(n)+"): "+got, i,
							map[string]any{"index": i, "cache_size": n, "script": p.text, "vars": p.world.Vars})
					}
				}
			}(seeds[gi])
		}
		wg.Wait()
		rep.Eval()
		rep.Inc("programs")
		rep.Add("disagreements_checked", int64(16*execs))
		if len(pool) > n {
			rep.Inc("rounds_with_evictions")
		}
		for _, p := range pool {
			rep.DistinctCase(vc.Hash64(p.text))
		}
		if rep.WantSample() {
			rep.Sample(map[string]any{"cache_size": n, "pool_size": len(pool), "goroutines": 16, "executions": 16 * execs, "one_text": pool[len(pool)-1].text})
		}
	})
}
