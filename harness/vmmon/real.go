package main

import (
	"context"
	"fmt"
	"math/big"
	"reflect"
	"regexp"
	"strings"

	ledger "github.com/formancehq/ledger/internal"
	"github.com/formancehq/ledger/internal/machine"
	"github.com/formancehq/ledger/internal/machine/script/compiler"
	"github.com/formancehq/ledger/internal/machine/vm"
	"github.com/formancehq/ledger/internal/machine/vm/program"
	ng "github.com/formancehq/ledger/internal/verif/numgen"
	"github.com/formancehq/stack/libs/go-libs/metadata"
)

// realOutcome: what the repository's compile -> bind -> resolve -> run pipeline did.
type realOutcome struct {
	Class    string // ok | insufficient | refused | panic
	Stage    string // compile | vars | resources | balances | run
	Err      string
	Postings []ng.Posting
	TxMeta   map[string]string
	AccMeta  map[string]map[string]string
	PanicSig string
	Stack    string
}

func storeOf(w *ng.World) vm.StaticStore {
	st := vm.StaticStore{}
	get := func(a string) *vm.AccountWithBalances {
		if st[a] == nil {
			st[a] = &vm.AccountWithBalances{Account: ledger.Account{Address: a, Metadata: metadata.Metadata{}}, Balances: map[string]*big.Int{}}
		}
		return st[a]
	}
	for a, m := range w.Balances {
		for as, b := range m {
			get(a).Balances[as] = new(big.Int).Set(b)
		}
	}
	for a, m := range w.Meta {
		for k, v := range m {
			get(a).Metadata[k] = v
		}
	}
	return st
}

func copyMap(m map[string]string) map[string]string {
	out := make(map[string]string, len(m))
	for k, v := range m {
		out[k] = v
	}
	return out
}

var reFrame = regexp.MustCompile(`(?m)^(github\.com/formancehq/\S+)\(`)
var reNum = regexp.MustCompile(`0x[0-9a-f]+|\d+`)

// panicSignature = value class + innermost repository frame (harness frames skipped).
func panicSignature(pv any, stack string) string {
	cls := fmt.Sprint(pv)
	if e, ok := pv.(error); ok {
		cls = e.Error()
	}
	cls = reNum.ReplaceAllString(cls, "N")
	cls = regexp.MustCompile(`'[^']*'|"[^"]*"`).ReplaceAllString(cls, "'_'")
	if len(cls) > 70 {
		cls = cls[:70]
	}
	frame := "unknown"
	for _, m := range reFrame.FindAllStringSubmatch(stack, -1) {
		fn := m[1]
		if strings.Contains(fn, "/internal/verif/") {
			continue
		}
		frame = regexp.MustCompile(`\.func\d+(\.\d+)*$`).ReplaceAllString(fn, "")
		frame = strings.TrimPrefix(frame, "github.com/formancehq/ledger/internal/")
		break
	}
	return "panic:" + cls + "@" + frame
}

type compileFn func(string) (*program.Program, error)

func freshCompile(s string) (*program.Program, error) { return compiler.Compile(s) }

func runReal(text string, w *ng.World, compile compileFn) (out realOutcome) {
	defer func() {
		if e := recover(); e != nil {
			out.Class = "panic"
			out.Err = fmt.Sprint(e)
			out.Stack = stackNow()
			out.PanicSig = panicSignature(e, out.Stack)
		}
	}()
	ctx := context.Background()
	out.Stage = "compile"
	prog, err := compile(text)
	if err != nil {
		return realOutcome{Class: ng.ClsRefused, Stage: "compile", Err: firstLine(err.Error())}
	}
	m := vm.NewMachine(*prog)
	m.Printer = func(c chan machine.Value) {
		for range c {
		}
	}
	out.Stage = "vars"
	if err := m.SetVarsFromJSON(copyMap(w.Vars)); err != nil {
		return realOutcome{Class: ng.ClsRefused, Stage: "vars", Err: firstLine(err.Error())}
	}
	st := storeOf(w)
	out.Stage = "resources"
	if _, _, err := m.ResolveResources(ctx, st); err != nil {
		return realOutcome{Class: ng.ClsRefused, Stage: "resources", Err: firstLine(err.Error())}
	}
	out.Stage = "balances"
	if err := m.ResolveBalances(ctx, st); err != nil {
		return realOutcome{Class: ng.ClsRefused, Stage: "balances", Err: firstLine(err.Error())}
	}
	out.Stage = "run"
	res, err := vm.Run(m, ledger.RunScript{Script: ledger.Script{Plain: text, Vars: copyMap(w.Vars)}, Metadata: metadata.Metadata(copyMap(w.TxMeta))})
	if err != nil {
		cls := ng.ClsRefused
		if machine.IsInsufficientFundError(err) {
			cls = ng.ClsInsufficient
		}
		if res != nil {
			return realOutcome{Class: "panic", Stage: "run", Err: "error together with a result", PanicSig: "result-with-error"}
		}
		return realOutcome{Class: cls, Stage: "run", Err: firstLine(err.Error())}
	}
	out = realOutcome{Class: ng.ClsOK, Stage: "run", TxMeta: map[string]string{}, AccMeta: map[string]map[string]string{}}
	for _, p := range res.Postings {
		amt := new(big.Int)
		if p.Amount != nil {
			amt.Set(p.Amount)
		}
		out.Postings = append(out.Postings, ng.Posting{Src: p.Source, Dst: p.Destination, Asset: p.Asset, Amt: amt})
	}
	for k, v := range res.Metadata {
		out.TxMeta[k] = v
	}
	for a, mm := range res.AccountMetadata {
		out.AccMeta[a] = map[string]string{}
		for k, v := range mm {
			out.AccMeta[a][k] = v
		}
	}
	return out
}

func firstLine(s string) string {
	if i := strings.IndexByte(s, '\n'); i >= 0 {
		s = s[:i]
	}
	if len(s) > 200 {
		s = s[:200]
	}
	return s
}

// compareOutcome: "" when the real outcome is what the reference defines.
func compareOutcome(ref ng.Outcome, real realOutcome) (rule, detail string) {
	if real.Class == "panic" {
		return real.PanicSig, real.Err
	}
	if ref.Quirk != "" && real.Class != ng.ClsOK {
		// the VM refuses this input class (see ng.Outcome.Quirk); singled out under its own signature
		if ref.Class == ng.ClsOK {
			return "refused-but-defined:quirk=" + ref.Quirk, "real: " + real.Stage + ": " + real.Err
		}
		return "", ""
	}
	switch ref.Class {
	case ng.ClsAny:
		if real.Class == ng.ClsOK {
			return "accepted-but-must-be-refused", "reference: " + ref.Why
		}
		return "", ""
	case ng.ClsOK:
		if real.Class != ng.ClsOK {
			return "refused-but-defined:" + real.Class, "real: " + real.Stage + ": " + real.Err
		}
	default:
		if real.Class == ng.ClsOK {
			return "accepted-but-must-be-" + ref.Class, "reference: " + ref.Why
		}
		if real.Class != ref.Class {
			return "error-class:" + ref.Class + "-reported-as-" + real.Class, "reference: " + ref.Why + " | real: " + real.Stage + ": " + real.Err
		}
		return "", ""
	}
	a, b := ng.Normalize(ref.Postings), ng.Normalize(real.Postings)
	if ng.PostingsString(a) != ng.PostingsString(b) {
		return "postings-differ", "reference: " + ng.PostingsString(a) + " | real: " + ng.PostingsString(b)
	}
	if !reflect.DeepEqual(ref.TxMeta, real.TxMeta) {
		return "txmeta-differs", "reference: " + ng.MetaString(ref.TxMeta) + " | real: " + ng.MetaString(real.TxMeta)
	}
	if !reflect.DeepEqual(ref.AccMeta, real.AccMeta) {
		return "accountmeta-differs", fmt.Sprintf("reference: %v | real: %v", ref.AccMeta, real.AccMeta)
	}
	return "", ""
}

type caseDump struct {
	Index    int               `json:"index"`
	Script   string            `json:"script"`
	Vars     map[string]string `json:"vars,omitempty"`
	Balances map[string]any    `json:"balances,omitempty"`
	Meta     map[string]any    `json:"meta,omitempty"`
	TxMeta   map[string]string `json:"request_metadata,omitempty"`
	Broken   string            `json:"rule_broken,omitempty"`
	Ref      string            `json:"reference,omitempty"`
	Real     string            `json:"real,omitempty"`
}

func dump(i int, c *ng.Case, text string, ref *ng.Outcome, real *realOutcome) caseDump {
	d := caseDump{Index: i, Script: text, Vars: c.World.Vars, TxMeta: c.World.TxMeta, Broken: c.Broken, Balances: map[string]any{}, Meta: map[string]any{}}
	for a, m := range c.World.Balances {
		mm := map[string]string{}
		for k, v := range m {
			mm[k] = v.String()
		}
		d.Balances[a] = mm
	}
	for a, m := range c.World.Meta {
		d.Meta[a] = m
	}
	if ref != nil {
		d.Ref = ref.Class + " " + ref.Why + " " + ng.PostingsString(ref.Postings)
	}
	if real != nil {
		d.Real = real.Class + " " + real.Stage + " " + real.Err + " " + ng.PostingsString(real.Postings)
	}
	return d
}
