package main

import (
	"context"
	"errors"
	"fmt"
	"math/big"
	"os"
	"strings"
	"time"

	ledger "github.com/formancehq/ledger/internal"
	"github.com/formancehq/ledger/internal/bus"
	"github.com/formancehq/ledger/internal/engine/command"
	"github.com/formancehq/ledger/internal/machine"
	"github.com/formancehq/ledger/internal/machine/vm"
	"github.com/formancehq/ledger/internal/storage"
	ng "github.com/formancehq/ledger/internal/verif/numgen"
	vc "github.com/formancehq/ledger/internal/verif/vcommon"
	"github.com/formancehq/stack/libs/go-libs/metadata"
)

// C12: no script, variable map or store content can crash the engine.

var seedScripts = []string{
	"send [USD/2 99] (\n\tsource = @world\n\tdestination = @alice\n)\n",
	"vars {\n\taccount $rider\n\taccount $driver\n}\nsend [COIN 15] (\n\tsource = $rider\n\tdestination = {\n\t\t85% to $driver\n\t\t10% to @platform:fees\n\t\tremaining kept\n\t}\n)\n",
	"vars {\n\tmonetary $bal = balance(@alice, USD)\n\tportion $fee = meta(@shop, \"fee_rate\")\n}\nsend $bal (\n\tsource = {\n\t\tmax [USD 10] from @alice\n\t\t@bob allowing overdraft up to [USD 50]\n\t\t@world\n\t}\n\tdestination = {\n\t\tmax [USD 5] to @a\n\t\t$fee to @b\n\t\tremaining to {\n\t\t\t1/2 to @c\n\t\t\t1/2 kept\n\t\t}\n\t}\n)\nset_tx_meta(\"k\", [USD 1] + [USD 2])\nset_account_meta(@alice, \"n\", 1 - 5)\n",
	"send [EUR/2 *] (\n\tsource = {\n\t\t@a\n\t\tmax [EUR/2 7] from @b allowing unbounded overdraft\n\t}\n\tdestination = @c\n)\nsave [EUR/2 3] from @a\nsave [EUR/2 *] from @b\n",
	"send [USD 100] (\n\tdestination = @d\n\tsource = {\n\t\t1/3 from @a\n\t\t2/3 from {\n\t\t\t@b\n\t\t\t@c allowing unbounded overdraft\n\t\t}\n\t}\n)\nfail\n",
	"vars {\n\tstring $s\n\tnumber $n\n\tasset $a\n}\nprint $n + 1\nset_tx_meta(\"s\", $s)\nsend [$a 3] (\n\tsource = @world\n\tdestination = @x\n)\n",
}

var tokens = []string{"vars", "meta", "set_tx_meta", "set_account_meta", "print", "fail", "send", "source", "from", "max", "destination", "to", "allocate", "+", "-", "(", ")", "[", "]", "{", "}", "=",
	"account", "asset", "number", "monetary", "portion", "string", "\"k\"", "\"\"", "1/2", "50%", "12.5%", "3/2", "150%", "0/0", "remaining", "kept", "balance", "save", "7", "0", "18446744073709551616", "%",
	"$a", "$b", "$x_1", "@a", "@world", "@a:b", "@a-b", "USD", "EUR/2", "*", ",", "\n", "\n", "\n", "\t", " ", "allowing overdraft up to", "allowing unbounded overdraft", "//", "/*", "*/", "@", "$", "é", "\x00", "\xff"}

func mutate(r *vc.Rand, s string) string {
	b := []byte(s)
	for k := r.Range(1, 4); k > 0 && len(b) > 0; k-- {
		switch r.Intn(6) {
		case 0: // flip
			b[r.Intn(len(b))] ^= byte(1 << r.Intn(8))
		case 1: // delete span
			i := r.Intn(len(b))
			j := i + r.Intn(8)
			if j > len(b) {
				j = len(b)
			}
			b = append(b[:i], b[j:]...)
		case 2: // duplicate span
			i := r.Intn(len(b))
			j := i + r.Intn(20)
			if j > len(b) {
				j = len(b)
			}
			b = append(b[:j], append(append([]byte{}, b[i:j]...), b[j:]...)...)
		case 3: // splice a token
			i := r.Intn(len(b) + 1)
			t := vc.Pick(r, tokens)
			b = append(b[:i], append([]byte(" "+t+" "), b[i:]...)...)
		case 4: // swap two lines
			ls := strings.Split(string(b), "\n")
			if len(ls) > 2 {
				i, j := r.Intn(len(ls)), r.Intn(len(ls))
				ls[i], ls[j] = ls[j], ls[i]
			}
			b = []byte(strings.Join(ls, "\n"))
		case 5: // truncate
			b = b[:r.Intn(len(b)+1)]
		}
	}
	return string(b)
}

// faultStore: fails the k-th read with a non-not-found error.
type faultStore struct {
	inner vm.Store
	n, at int
}

var errInjected = errors.New("injected store read failure")

func (f *faultStore) GetBalance(ctx context.Context, a, as string) (*big.Int, error) {
	f.n++
	if f.n == f.at {
		return nil, errInjected
	}
	return f.inner.GetBalance(ctx, a, as)
}
func (f *faultStore) GetAccount(ctx context.Context, a string) (*ledger.Account, error) {
	f.n++
	if f.n == f.at {
		return nil, errInjected
	}
	return f.inner.GetAccount(ctx, a)
}

type c12case struct {
	Index   int               `json:"index"`
	Kind    string            `json:"kind"`
	Script  string            `json:"script"`
	Vars    map[string]string `json:"vars"`
	World   any               `json:"store,omitempty"`
	FaultAt int               `json:"store_read_fault_at,omitempty"`
}

// runRaw: like runReal but with an arbitrary store and classification by stage; never shares state between calls.
func runRaw(text string, w *ng.World, faultAt int) (out realOutcome) {
	defer func() {
		if e := recover(); e != nil {
			out.Class = "panic"
			out.Err = fmt.Sprint(e)
			out.Stack = stackNow()
			out.PanicSig = panicSignature(e, out.Stack)
		}
	}()
	if faultAt == 0 {
		return runReal(text, w, freshCompile)
	}
	ctx := context.Background()
	prog, err := freshCompile(text)
	if err != nil {
		return realOutcome{Class: ng.ClsRefused, Stage: "compile", Err: firstLine(err.Error())}
	}
	m := vm.NewMachine(*prog)
	m.Printer = func(c chan machine.Value) {
		for range c {
		}
	}
	if err := m.SetVarsFromJSON(copyMap(w.Vars)); err != nil {
		return realOutcome{Class: ng.ClsRefused, Stage: "vars", Err: firstLine(err.Error())}
	}
	st := &faultStore{inner: storeOf(w), at: faultAt}
	if _, _, err := m.ResolveResources(ctx, st); err != nil {
		return realOutcome{Class: ng.ClsRefused, Stage: "resources", Err: firstLine(err.Error())}
	}
	if err := m.ResolveBalances(ctx, st); err != nil {
		return realOutcome{Class: ng.ClsRefused, Stage: "balances", Err: firstLine(err.Error())}
	}
	res, err := vm.Run(m, ledger.RunScript{Script: ledger.Script{Plain: text, Vars: copyMap(w.Vars)}, Metadata: metadata.Metadata(copyMap(w.TxMeta))})
	if err != nil {
		cls := ng.ClsRefused
		if machine.IsInsufficientFundError(err) {
			cls = ng.ClsInsufficient
		}
		return realOutcome{Class: cls, Stage: "run", Err: firstLine(err.Error())}
	}
	out = realOutcome{Class: ng.ClsOK, Stage: "run"}
	for _, p := range res.Postings {
		out.Postings = append(out.Postings, ng.Posting{Src: p.Source, Dst: p.Destination, Asset: p.Asset, Amt: p.Amount})
	}
	return out
}

var hostileStrings = []string{"", " ", "world", "@world", "a b", "é", "\x00", "USD -5", "USD", "USD 1 2", "-1", "1e3", "0x10", "1/0", "3/2", "101%", "-5%", "1.5", "USD/1234567 1", "usd 1", strings.Repeat("9", 400), "\"q\"", "a:b:", ":a", "a::b"}

func genC12(r *vc.Rand, i int) (c12case, *ng.World) {
	emptyWorld := func() *ng.World {
		return &ng.World{Vars: map[string]string{}, Balances: map[string]map[string]*big.Int{}, Meta: map[string]map[string]string{}, TxMeta: map[string]string{}}
	}
	switch r.Weighted(6, 10, 22, 30, 12, 12, 8) {
	case 0: // random bytes
		n := r.Intn(80)
		b := make([]byte, n)
		for k := range b {
			b[k] = byte(r.Intn(256))
		}
		return c12case{Index: i, Kind: "bytes", Script: string(b)}, emptyWorld()
	case 1: // token soup
		var sb strings.Builder
		for k := r.Range(1, 40); k > 0; k-- {
			sb.WriteString(vc.Pick(r, tokens))
			if r.Chance(2, 3) {
				sb.WriteByte(' ')
			}
		}
		return c12case{Index: i, Kind: "tokens", Script: sb.String()}, emptyWorld()
	case 2: // mutation of a well-formed script
		var text string
		var w *ng.World
		if r.Chance(1, 4) {
			text = vc.Pick(r, seedScripts)
			w = emptyWorld()
			w.Vars = map[string]string{"rider": "users:1", "driver": "users:2", "s": "x", "n": "4", "a": "USD"}
			w.Meta["shop"] = map[string]string{"fee_rate": "1/10"}
			w.Balances["alice"] = map[string]*big.Int{"USD": big.NewInt(40)}
		} else {
			c := ng.Generate(r, ng.FullCfg())
			text, w = c.Prog.String(), c.World
		}
		return c12case{Index: i, Kind: "mutated", Script: mutate(r, text), Vars: w.Vars}, w
	case 3: // valid but possibly meaningless programs
		c := ng.Generate(r, ng.WildCfg(r))
		return c12case{Index: i, Kind: "wild", Script: c.Prog.String(), Vars: c.World.Vars}, c.World
	case 4: // hostile variable maps on a well-formed program
		c := ng.Generate(r, ng.FullCfg())
		w := c.World
		names := []string{}
		for k := range w.Vars {
			names = append(names, k)
		}
		switch r.Intn(4) {
		case 0:
			if len(names) > 0 {
				delete(w.Vars, names[r.Intn(len(names))])
			}
		case 1:
			w.Vars["extra_"+fmt.Sprint(r.Intn(3))] = vc.Pick(r, hostileStrings)
		default:
			for _, n := range names {
				if r.Chance(1, 2) {
					w.Vars[n] = vc.Pick(r, hostileStrings)
				}
			}
		}
		return c12case{Index: i, Kind: "vars", Script: c.Prog.String(), Vars: w.Vars}, w
	case 5: // hostile store content
		c := ng.Generate(r, ng.WildCfg(r))
		w := c.World
		for a, m := range w.Meta {
			for k := range m {
				if r.Chance(1, 2) {
					w.Meta[a][k] = vc.Pick(r, hostileStrings)
				} else if r.Chance(1, 3) {
					delete(w.Meta[a], k)
				}
			}
		}
		for a, m := range w.Balances {
			for as := range m {
				switch r.Intn(6) {
				case 0:
					w.Balances[a][as] = new(big.Int).Neg(new(big.Int).Lsh(big.NewInt(1), 70))
				case 1:
					w.Balances[a][as] = new(big.Int).Lsh(big.NewInt(1), 200)
				case 2:
					w.Balances[a][as] = big.NewInt(-1)
				}
			}
		}
		return c12case{Index: i, Kind: "store", Script: c.Prog.String(), Vars: w.Vars}, w
	}
	// store read failures
	c := ng.Generate(r, ng.FullCfg())
	return c12case{Index: i, Kind: "readfault", Script: c.Prog.String(), Vars: c.World.Vars, FaultAt: r.Range(1, 6)}, c.World
}

// cmdHarness: a real Commander (in-memory store of the repository, batcher + runner started) for the request-level part:
// a panic must not escape Commander.CreateTransaction either.
type cmdHarness struct {
	cmd  *command.Commander
	used int
}

func newCmdHarness() *cmdHarness {
	st := storage.NewInMemoryStore()
	c := command.New(st, command.NoOpLocker, command.NewCompiler(16), command.NewReferencer(), bus.NewNoOpMonitor())
	_ = c.Init(context.Background())
	go func() {
		defer func() { _ = recover() }()
		c.Run(context.Background())
	}()
	h := &cmdHarness{cmd: c}
	for _, a := range []string{"alice", "bob", "users:001", "treasury"} {
		_, _ = c.CreateTransaction(context.Background(), command.Parameters{}, ledger.TxToScriptData(ledger.TransactionData{
			Postings: ledger.Postings{{Source: "world", Destination: a, Amount: big.NewInt(500), Asset: "USD"}, {Source: "world", Destination: a, Amount: big.NewInt(500), Asset: "EUR/2"}}}, false))
	}
	return h
}

func (h *cmdHarness) run(text string, vars map[string]string) (out realOutcome) {
	defer func() {
		if e := recover(); e != nil {
			out.Class = "panic"
			out.Err = fmt.Sprint(e)
			out.Stack = stackNow()
			out.PanicSig = "commander:" + panicSignature(e, out.Stack)
		}
	}()
	h.used++
	_, err := h.cmd.CreateTransaction(context.Background(), command.Parameters{}, ledger.RunScript{Script: ledger.Script{Plain: text, Vars: copyMap(vars)}})
	if err != nil {
		if machine.IsInsufficientFundError(err) {
			return realOutcome{Class: ng.ClsInsufficient, Stage: "commander"}
		}
		return realOutcome{Class: ng.ClsRefused, Stage: "commander", Err: firstLine(err.Error())}
	}
	return realOutcome{Class: ng.ClsOK, Stage: "commander"}
}

func runC12(cfg *vc.Config, rep *vc.Report) {
	harness := newCmdHarness()
	// canaries: fixed programs whose outcome must never change during the life of the process
	type canary struct {
		text string
		w    *ng.World
		want string
	}
	var canaries []canary
	cr := vc.NewRand(424242)
	for k := 0; k < 6; k++ {
		c := ng.Generate(cr, ng.FullCfg())
		t := c.Prog.String()
		canaries = append(canaries, canary{t, c.World, outcomeString(runReal(t, c.World, freshCompile))})
	}
	checkCanaries := func(i int, last c12case) {
		for k, cn := range canaries {
			if got := outcomeString(runReal(cn.text, cn.w, freshCompile)); got != cn.want {
				rep.Violate("state-left-behind", fmt.Sprintf("canary %d changed outcome after case %d: %s -> %s", k, i, cn.want, got), i, last)
				canaries[k].want = got
			}
		}
		rep.Inc("canary_rounds")
	}
	type result struct {
		o realOutcome
	}
	cfg.Cases(200000, 20000000, func(i int, r *vc.Rand) {
		cs, w := genC12(r, i)
		if i%64 == 0 {
			rep.Current(cs) // cheap: full logging only periodically; a fatal error is attributed by index range
		}
		rep.Eval()
		rep.Inc("kind_" + cs.Kind)
		done := make(chan result, 1)
		go func() { done <- result{runRaw(cs.Script, w, cs.FaultAt)} }()
		var o realOutcome
		select {
		case res := <-done:
			o = res.o
		case <-time.After(20 * time.Second):
			// re-confirm in isolation with a long limit before calling it a hang
			rep.Current(cs)
			done2 := make(chan result, 1)
			go func() { done2 <- result{runRaw(cs.Script, w, cs.FaultAt)} }()
			select {
			case res := <-done2:
				o = res.o
				rep.Inc("slow_cases")
			case <-time.After(60 * time.Second):
				rep.Violate("hang@"+cs.Kind, "no result after 20 s and again after 60 s in isolation", i, cs)
				rep.Write(true)
				os.Exit(0)
			}
		}
		if i%8 == 0 { // the same input as a request to a real Commander
			if harness.used > 300 {
				harness = newCmdHarness()
			}
			// the request runs beside a watchdog: a request that never returns (e.g. behind a mutex a crashed request left
			// locked) must not take the monitor down with it
			hh := harness
			done := make(chan realOutcome, 1)
			go func() { done <- hh.run(cs.Script, cs.Vars) }()
			var co realOutcome
			select {
			case co = <-done:
			case <-time.After(30 * time.Second):
				co = realOutcome{Class: "hang"}
				rep.Violate("commander:request-never-returns", "a request to the Commander did not return within 30 s (the engine of this harness instance is abandoned)", i, cs)
				harness = newCmdHarness()
			}
			rep.Inc("commander_requests")
			rep.Inc("commander_" + co.Class)
			if co.Class == "panic" {
				rep.Violate(co.PanicSig, co.Err+"\n"+trimStack(co.Stack), i, cs)
				harness = newCmdHarness() // a crashed request may have left the engine in any state
			}
		}
		rep.Inc("outcome_" + o.Class)
		if o.Stage != "" {
			rep.Inc("stage_" + o.Stage)
		}
		if o.Class == "panic" {
			rep.Violate(o.PanicSig, o.Err+"\n"+trimStack(o.Stack), i, cs)
		} else {
			// determinism: the same case again, fresh machine
			o2 := runRaw(cs.Script, w, cs.FaultAt)
			if classString(o) != classString(o2) {
				rep.Violate("nondeterministic-outcome", outcomeString(o)+" vs "+outcomeString(o2), i, cs)
			}
			if o.Class != ng.ClsRefused || o.Stage != "compile" {
				rep.DistinctCase(vc.Hash64(cs.Script, vc.MustJSON(cs.Vars)))
			}
		}
		if i%500 == 499 {
			checkCanaries(i, cs)
		}
		if rep.WantSample() && o.Class == ng.ClsRefused && cs.Kind == "mutated" && o.Stage != "compile" {
			rep.Sample(map[string]any{"case": cs, "outcome": o.Class + " at " + o.Stage + ": " + o.Err})
		}
	})
	checkCanaries(-1, c12case{})
}

// classString: what must be reproducible (the wording of an error message may depend on map iteration order).
func classString(o realOutcome) string {
	return fmt.Sprintf("%s|%s|%s|%s|%v", o.Class, o.Stage, ng.PostingsString(o.Postings), ng.MetaString(o.TxMeta), o.AccMeta)
}

func trimStack(s string) string {
	ls := strings.Split(s, "\n")
	var keep []string
	for _, l := range ls {
		if strings.Contains(l, "formancehq") && !strings.Contains(l, "internal/verif") {
			keep = append(keep, strings.TrimSpace(l))
		}
		if len(keep) > 12 {
			break
		}
	}
	return strings.Join(keep, "\n")
}
