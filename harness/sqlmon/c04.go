package main

import (
	"context"
	"fmt"
	"math/big"
	"strings"

	ledger "github.com/formancehq/ledger/internal"
	"github.com/formancehq/ledger/internal/storage/ledgerstore"
	"github.com/formancehq/ledger/internal/verif/fakesql"
	vc "github.com/formancehq/ledger/internal/verif/vcommon"
	"github.com/formancehq/stack/libs/go-libs/query"
)

// ------------------------------------------------------------------------------------------------
// C04 (Go half), part 1: every read statement a Store emits is confined to its own ledger.
//
// Inside every SELECT block, each reference to a ledger-scoped table (transactions, accounts, moves, logs,
// transactions_metadata, accounts_metadata) must be constrained by `ledger = '<this store>'`, or be tied by a *_seq
// equality to a table that is, or be a schema function called with the ledger literal as first argument.

var scopedTables = map[string]bool{"transactions": true, "accounts": true, "moves": true, "logs": true, "transactions_metadata": true, "accounts_metadata": true}

type group struct {
	toks     []Tok // own tokens; a nested group is represented by a Tok{Kind:"group"} whose Val indexes into subs
	subs     []*group
	isSelect bool
}

func parseGroups(toks []Tok) *group {
	pos := 0
	var rec func() *group
	rec = func() *group {
		g := &group{}
		for pos < len(toks) {
			t := toks[pos]
			if t.Kind == "comment" {
				pos++
				continue
			}
			if t.Kind == "op" && t.Text == "(" {
				pos++
				sub := rec()
				g.toks = append(g.toks, Tok{Kind: "group", Val: fmt.Sprint(len(g.subs))})
				g.subs = append(g.subs, sub)
				continue
			}
			if t.Kind == "op" && t.Text == ")" {
				pos++
				break
			}
			g.toks = append(g.toks, t)
			pos++
		}
		for _, t := range g.toks {
			if t.Kind == "group" {
				continue
			}
			g.isSelect = t.Kind == "ident" && (t.Text == "select" || t.Text == "with")
			break
		}
		return g
	}
	return rec()
}

type tableRef struct {
	table, alias string
	block        *block
}

type block struct {
	toks   []Tok // flattened: own tokens + nested non-select groups
	tables []*tableRef
	funcs  []string // function calls in FROM/JOIN position whose first argument is not the ledger literal
}

func unq(s string) string { return strings.ToLower(strings.Trim(s, `"`)) }

var sqlKeywords = map[string]bool{"where": true, "join": true, "left": true, "right": true, "inner": true, "on": true, "order": true, "group": true, "limit": true, "offset": true, "as": true,
	"lateral": true, "union": true, "having": true, "cross": true, "full": true, "natural": true, "using": true, "select": true, "from": true, "and": true, "or": true}

// collectBlocks flattens the group tree into SELECT blocks.
func collectBlocks(g *group, ledgerName string, out *[]*block, ctes map[string]bool) {
	b := &block{}
	var flat func(x *group)
	var pendingSelects []*group
	flat = func(x *group) {
		for _, t := range x.toks {
			if t.Kind == "group" {
				var idx int
				fmt.Sscan(t.Val, &idx)
				sub := x.subs[idx]
				if sub.isSelect {
					pendingSelects = append(pendingSelects, sub)
					b.toks = append(b.toks, Tok{Kind: "subselect"})
				} else {
					b.toks = append(b.toks, Tok{Kind: "op", Text: "("})
					flat(sub)
					b.toks = append(b.toks, Tok{Kind: "op", Text: ")"})
				}
				continue
			}
			b.toks = append(b.toks, t)
		}
	}
	flat(g)
	// CTE names: with "name" as <subselect>
	for i := 0; i+2 < len(b.toks); i++ {
		if (b.toks[i].Kind == "ident" || b.toks[i].Kind == "qident") && b.toks[i+1].Kind == "ident" && b.toks[i+1].Text == "as" && b.toks[i+2].Kind == "subselect" &&
			i > 0 && (b.toks[i-1].Text == "with" || b.toks[i-1].Text == ",") {
			ctes[unq(b.toks[i].Text)] = true
		}
	}
	// table references after FROM / JOIN
	for i := 0; i < len(b.toks); i++ {
		t := b.toks[i]
		if t.Kind != "ident" || (t.Text != "from" && t.Text != "join") {
			continue
		}
		j := i + 1
		if j < len(b.toks) && b.toks[j].Kind == "ident" && b.toks[j].Text == "lateral" {
			j++
		}
		if j >= len(b.toks) {
			break
		}
		n := b.toks[j]
		if n.Kind != "ident" && n.Kind != "qident" {
			continue // sub-select or parenthesised expression
		}
		name := unq(n.Text)
		// schema-qualified?
		if j+2 < len(b.toks) && b.toks[j+1].Text == "." && (b.toks[j+2].Kind == "ident" || b.toks[j+2].Kind == "qident") {
			name = unq(b.toks[j+2].Text)
			j += 2
		}
		// function call?
		if j+1 < len(b.toks) && b.toks[j+1].Kind == "op" && b.toks[j+1].Text == "(" {
			first := Tok{}
			if j+2 < len(b.toks) {
				first = b.toks[j+2]
			}
			if !(first.Kind == "str" && first.Val == ledgerName) {
				b.funcs = append(b.funcs, name)
			}
			continue
		}
		alias := name
		k := j + 1
		if k < len(b.toks) && b.toks[k].Kind == "ident" && b.toks[k].Text == "as" {
			k++
		}
		if k < len(b.toks) && (b.toks[k].Kind == "ident" || b.toks[k].Kind == "qident") && !sqlKeywords[unq(b.toks[k].Text)] {
			alias = unq(b.toks[k].Text)
		}
		b.tables = append(b.tables, &tableRef{table: name, alias: alias, block: b})
	}
	*out = append(*out, b)
	for _, s := range pendingSelects {
		collectBlocks(s, ledgerName, out, ctes)
	}
}

// hasLedgerCond: block contains `[alias .] ledger = '<name>'`.
func (b *block) hasLedgerCond(alias, ledgerName string, onlyTable bool) bool {
	for i := 0; i+2 < len(b.toks); i++ {
		if unq(b.toks[i].Text) == "ledger" && (b.toks[i].Kind == "ident" || b.toks[i].Kind == "qident") && b.toks[i+1].Text == "=" && b.toks[i+2].Kind == "str" && b.toks[i+2].Val == ledgerName {
			qualified := i >= 2 && b.toks[i-1].Text == "."
			if !qualified {
				if onlyTable {
					return true
				}
				continue
			}
			if unq(b.toks[i-2].Text) == alias {
				return true
			}
		}
	}
	return false
}

// seqPartners: aliases X such that the block contains A.<..seq> = X.<..seq> (either side), for alias A.
func (b *block) seqPartners(alias string) []string {
	var out []string
	col := func(i int) (a, c string, ok bool) { // tokens i..i+2: alias . column
		if i+2 < len(b.toks) && b.toks[i+1].Text == "." {
			return unq(b.toks[i].Text), unq(b.toks[i+2].Text), true
		}
		return "", "", false
	}
	for i := 0; i+6 < len(b.toks); i++ {
		a1, c1, ok1 := col(i)
		if !ok1 || b.toks[i+3].Text != "=" {
			continue
		}
		a2, c2, ok2 := col(i + 4)
		if !ok2 {
			continue
		}
		isSeq := func(c string) bool { return c == "seq" || strings.HasSuffix(c, "_seq") }
		if isSeq(c1) && isSeq(c2) {
			if a1 == alias {
				out = append(out, a2)
			}
			if a2 == alias {
				out = append(out, a1)
			}
		}
	}
	return out
}

// unscoped returns descriptions of table references that are not confined to ledgerName.
func unscoped(sql, ledgerName string) []string {
	g := parseGroups(Lex(sql))
	var blocks []*block
	ctes := map[string]bool{}
	collectBlocks(g, ledgerName, &blocks, ctes)
	byAlias := map[string]*tableRef{}
	for _, b := range blocks {
		for _, t := range b.tables {
			if scopedTables[t.table] {
				if _, dup := byAlias[t.alias]; !dup {
					byAlias[t.alias] = t
				}
			}
		}
	}
	var scoped func(t *tableRef, seen map[*tableRef]bool) bool
	scoped = func(t *tableRef, seen map[*tableRef]bool) bool {
		if seen[t] {
			return false
		}
		seen[t] = true
		nScopedTables := 0
		for _, x := range t.block.tables {
			if scopedTables[x.table] && !ctes[x.table] {
				nScopedTables++
			}
		}
		if t.block.hasLedgerCond(t.alias, ledgerName, nScopedTables == 1) {
			return true
		}
		for _, p := range t.block.seqPartners(t.alias) {
			if o, ok := byAlias[p]; ok && o != t && scoped(o, seen) {
				return true
			}
		}
		return false
	}
	var bad []string
	for bi, b := range blocks {
		for _, t := range b.tables {
			if !scopedTables[t.table] {
				continue
			}
			if ctes[t.table] && bi > 0 && !b.definesFromRealTable(t) {
				continue // a reference to the CTE of that name, not to the table
			}
			if !scoped(t, map[*tableRef]bool{}) {
				bad = append(bad, t.table)
			}
		}
		for _, f := range b.funcs {
			if strings.HasPrefix(f, "get_") {
				bad = append(bad, f+"()")
			}
		}
	}
	return bad
}

// definesFromRealTable: inside the CTE definition itself the name denotes the real table; bun writes it quoted
// (FROM "moves"), while references to the CTE are written unquoted by the builders (TableExpr("moves")).
func (b *block) definesFromRealTable(t *tableRef) bool {
	for i, tok := range b.toks {
		if tok.Kind == "ident" && (tok.Text == "from" || tok.Text == "join") && i+1 < len(b.toks) && b.toks[i+1].Kind == "qident" && unq(b.toks[i+1].Text) == t.table {
			return true
		}
	}
	return false
}

// ------------------------------------------------------------------------------------------------

type readCall struct {
	Method  string `json:"method"`
	Options string `json:"options"`
}

func genQB(r *vc.Rand, kind string) (query.Builder, string) {
	var keys [][2]string
	switch kind {
	case "tx":
		keys = [][2]string{{"reference", "r"}, {"timestamp", "2023-01-01T00:00:00Z"}, {"account", "users:001"}, {"source", "a:"}, {"destination", "b"}, {"metadata[k]", "v"}}
	case "acc":
		keys = [][2]string{{"address", "users:"}, {"address", "alice"}, {"metadata[k]", "v"}, {"balance[USD]", "10"}, {"balance", "5"}}
	case "bal":
		keys = [][2]string{{"address", "users:"}, {"address", "alice"}, {"metadata[k]", "v"}}
	case "log":
		keys = [][2]string{{"date", "2023-01-01T00:00:00Z"}}
	}
	switch r.Intn(4) {
	case 0:
		return nil, ""
	case 1:
		k := vc.Pick(r, keys)
		return query.Match(k[0], k[1]), "match " + k[0]
	case 2:
		a, b := vc.Pick(r, keys), vc.Pick(r, keys)
		return query.And(query.Match(a[0], a[1]), query.Or(query.Match(b[0], b[1]), query.Not(query.Match(a[0], a[1])))), "and/or/not " + a[0] + "," + b[0]
	}
	k := vc.Pick(r, keys)
	if kind == "log" || k[0] == "timestamp" || strings.HasPrefix(k[0], "balance") || k[0] == "reference" {
		return query.Lt(k[0], k[1]), "lt " + k[0]
	}
	return query.Match(k[0], k[1]), "match " + k[0]
}

func genPIT(r *vc.Rand) (ledgerstore.PITFilterWithVolumes, string) {
	var f ledgerstore.PITFilterWithVolumes
	d := "pit=nil"
	switch r.Intn(3) {
	case 1:
		z := ledger.Time{}
		f.PIT = &z
		d = "pit=zero"
	case 2:
		t, _ := ledger.ParseTime("2023-06-01T00:00:00Z")
		f.PIT = &t
		d = "pit=set"
	}
	f.ExpandVolumes = r.Bool()
	f.ExpandEffectiveVolumes = r.Bool()
	return f, fmt.Sprintf("%s volumes=%v effective=%v", d, f.ExpandVolumes, f.ExpandEffectiveVolumes)
}

func runC04(cfg *vc.Config, rep *vc.Report) {
	if cfg.Only < 0 {
		runC04Address(cfg, rep, cfg.Count(10000, 250000))
	}
	if cfg.Only < 0 && cfg.Shard == 0 {
		runC04Operators(rep)
	}
	if cfg.Only < 0 {
		runC04Bool(cfg, rep, cfg.Count(3000, 60000))
	}
	ctx := context.Background()
	db, rec := fakesql.Open()
	stores := map[string]*ledgerstore.Store{"ledgera": ledgerstore.NewStoreForVerif(db, "bucket0", "ledgera"), "ledgerb": ledgerstore.NewStoreForVerif(db, "bucket0", "ledgerb")}
	cfg.Cases(20000, 500000, func(i int, r *vc.Rand) {
		name := vc.Pick(r, []string{"ledgera", "ledgerb"})
		other := map[string]string{"ledgera": "ledgerb", "ledgerb": "ledgera"}[name]
		s := stores[name]
		pit, pd := genPIT(r)
		var call readCall
		rec.Reset()
		pv, _ := vc.Guard(func() {
			switch r.Intn(15) {
			case 0:
				qb, d := genQB(r, "tx")
				call = readCall{"GetTransactions", pd + " " + d}
				_, _ = s.GetTransactions(ctx, ledgerstore.NewGetTransactionsQuery(ledgerstore.NewPaginatedQueryOptions(pit).WithQueryBuilder(qb)))
			case 1:
				qb, d := genQB(r, "tx")
				call = readCall{"CountTransactions", pd + " " + d}
				_, _ = s.CountTransactions(ctx, ledgerstore.NewGetTransactionsQuery(ledgerstore.NewPaginatedQueryOptions(pit).WithQueryBuilder(qb)))
			case 2:
				call = readCall{"GetTransactionWithVolumes", pd}
				q := ledgerstore.NewGetTransactionQuery(big.NewInt(3))
				q.PITFilterWithVolumes = pit
				_, _ = s.GetTransactionWithVolumes(ctx, q)
			case 3:
				call = readCall{"GetTransaction", ""}
				_, _ = s.GetTransaction(ctx, big.NewInt(3))
			case 4:
				call = readCall{"GetTransactionByReference", ""}
				_, _ = s.GetTransactionByReference(ctx, "ref")
			case 5:
				call = readCall{"GetLastTransaction", ""}
				_, _ = s.GetLastTransaction(ctx)
			case 6:
				qb, d := genQB(r, "acc")
				call = readCall{"GetAccountsWithVolumes", pd + " " + d}
				_, _ = s.GetAccountsWithVolumes(ctx, ledgerstore.NewGetAccountsQuery(ledgerstore.NewPaginatedQueryOptions(pit).WithQueryBuilder(qb)))
			case 7:
				qb, d := genQB(r, "acc")
				call = readCall{"CountAccounts", pd + " " + d}
				_, _ = s.CountAccounts(ctx, ledgerstore.NewGetAccountsQuery(ledgerstore.NewPaginatedQueryOptions(pit).WithQueryBuilder(qb)))
			case 8:
				call = readCall{"GetAccount", ""}
				_, _ = s.GetAccount(ctx, "alice")
			case 9:
				call = readCall{"GetAccountWithVolumes", pd}
				q := ledgerstore.NewGetAccountQuery("alice")
				q.PITFilterWithVolumes = pit
				_, _ = s.GetAccountWithVolumes(ctx, q)
			case 10:
				qb, d := genQB(r, "bal")
				call = readCall{"GetAggregatedBalances", pd + " " + d}
				_, _ = s.GetAggregatedBalances(ctx, ledgerstore.NewGetAggregatedBalancesQuery(ledgerstore.NewPaginatedQueryOptions(pit.PITFilter).WithQueryBuilder(qb)))
			case 11:
				call = readCall{"GetBalance", ""}
				_, _ = s.GetBalance(ctx, "alice", "USD")
			case 12:
				qb, d := genQB(r, "log")
				call = readCall{"GetLogs", d}
				_, _ = s.GetLogs(ctx, ledgerstore.NewGetLogsQuery(ledgerstore.PaginatedQueryOptions[any]{QueryBuilder: qb, PageSize: 10}))
			case 13:
				call = readCall{"GetLastLog", ""}
				_, _ = s.GetLastLog(ctx)
			case 14:
				call = readCall{"ReadLogWithIdempotencyKey", ""}
				_, _ = s.ReadLogWithIdempotencyKey(ctx, "ik")
			}
		})
		rep.Eval()
		rep.Inc("method_" + call.Method)
		if pv != nil {
			rep.Inc("store_call_panicked")
		}
		n := 0
		for _, st := range rec.Snapshot() {
			if st.Kind != "query" {
				continue
			}
			n++
			rep.Inc("statements_checked")
			rep.DistinctCase(vc.Hash64(call.Method, Skeleton(Lex(st.Text))))
			if strings.Contains(st.Text, other) {
				rep.Violate("other-ledger-named:"+call.Method, st.Text, i, call)
			}
			if msg := volumeFunctionMismatch(st.Text, pit); msg != "" {
				rep.Violate("volume-function-mismatch:"+call.Method, msg+": "+st.Text, i, call)
			}
			if bad := unscoped(st.Text, name); len(bad) > 0 {
				rep.Violate("unscoped:"+call.Method+":"+strings.Join(uniqStrings(bad), ","), "not confined to ledger '"+name+"': "+st.Text, i, call)
			}
			if rep.WantSample() && r.Chance(1, 40) {
				rep.Sample(map[string]any{"call": call, "ledger": name, "statement": st.Text})
			}
		}
		if n == 0 && pv == nil {
			rep.Inc("calls_without_statement")
		}
	})
}

func uniqStrings(xs []string) []string {
	m := map[string]bool{}
	var out []string
	for _, x := range xs {
		if !m[x] {
			m[x] = true
			out = append(out, x)
		}
	}
	return out
}

var _ = fakesql.Open

// volumeFunctionMismatch: the Go side wires schema functions to result columns. A function call `get_*(...)` followed by
// an alias (`volumes`, `effective_volumes`, `as post_commit_effective_volumes` ...) must be of the same kind as its alias:
// "effective" in the one iff in the other; and the expand flags of the request must each be answered by a call of that kind.
func volumeFunctionMismatch(sql string, f ledgerstore.PITFilterWithVolumes) string {
	toks := Lex(sql)
	sawEff, sawPlain := false, false
	for i := 0; i < len(toks); i++ {
		t := toks[i]
		if t.Kind != "ident" || !strings.HasPrefix(t.Text, "get_") || !strings.Contains(t.Text, "volumes") || i+1 >= len(toks) || toks[i+1].Text != "(" {
			continue
		}
		depth, j := 0, i+1
		for ; j < len(toks); j++ {
			if toks[j].Text == "(" {
				depth++
			} else if toks[j].Text == ")" {
				depth--
				if depth == 0 {
					break
				}
			}
		}
		j++
		if j < len(toks) && toks[j].Kind == "ident" && toks[j].Text == "as" {
			j++
		}
		if j >= len(toks) || (toks[j].Kind != "ident" && toks[j].Kind != "qident") {
			continue
		}
		alias := unq(toks[j].Text)
		fnEff, alEff := strings.Contains(t.Text, "effective"), strings.Contains(alias, "effective")
		if fnEff != alEff {
			return fmt.Sprintf("function %s feeds the result column %s", t.Text, alias)
		}
		if fnEff {
			sawEff = true
		} else {
			sawPlain = true
		}
	}
	if strings.Contains(sql, "get_") && strings.Contains(sql, "volumes") {
		if f.ExpandEffectiveVolumes && !sawEff && (strings.Contains(sql, "effective_volumes")) {
			return "effective volumes requested but no effective-volumes function is called"
		}
		if f.ExpandVolumes && !sawPlain && strings.Contains(sql, " volumes") {
			return "volumes requested but no volumes function is called"
		}
	}
	return ""
}
