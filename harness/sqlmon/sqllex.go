package main

import (
	"strings"
	"unicode"
)

// Tok: one lexical element of a PostgreSQL statement.
type Tok struct {
	Kind string // str | num | ident | qident | op | comment | dollar
	Text string // source text
	Val  string // for str / dollar: the literal's content
}

// Lex splits a statement according to PostgreSQL's lexical structure (standard_conforming_strings = on):
// '...' with ” escapes, E'...' with backslash escapes, $tag$...$tag$, "quoted identifiers", -- and /* */ comments
// (nested), numbers, identifiers/keywords, operators and punctuation. An unterminated literal is one token to the end.
func Lex(s string) []Tok {
	var out []Tok
	i := 0
	n := len(s)
	for i < n {
		c := s[i]
		switch {
		case c == ' ' || c == '\t' || c == '\n' || c == '\r':
			i++
		case c == '-' && i+1 < n && s[i+1] == '-':
			j := strings.IndexByte(s[i:], '\n')
			if j < 0 {
				j = n - i
			}
			out = append(out, Tok{Kind: "comment", Text: s[i : i+j]})
			i += j
		case c == '/' && i+1 < n && s[i+1] == '*':
			depth, j := 1, i+2
			for j < n && depth > 0 {
				if j+1 < n && s[j] == '/' && s[j+1] == '*' {
					depth++
					j += 2
				} else if j+1 < n && s[j] == '*' && s[j+1] == '/' {
					depth--
					j += 2
				} else {
					j++
				}
			}
			out = append(out, Tok{Kind: "comment", Text: s[i:j]})
			i = j
		case c == '\'' || ((c == 'E' || c == 'e') && i+1 < n && s[i+1] == '\''):
			esc := c != '\''
			j := i + 1
			if esc {
				j++
			}
			var val strings.Builder
			for j < n {
				if esc && s[j] == '\\' && j+1 < n {
					val.WriteByte(s[j+1])
					j += 2
					continue
				}
				if s[j] == '\'' {
					if j+1 < n && s[j+1] == '\'' {
						val.WriteByte('\'')
						j += 2
						continue
					}
					j++
					break
				}
				val.WriteByte(s[j])
				j++
			}
			out = append(out, Tok{Kind: "str", Text: s[i:j], Val: val.String()})
			i = j
		case c == '"':
			j := i + 1
			for j < n {
				if s[j] == '"' {
					if j+1 < n && s[j+1] == '"' {
						j += 2
						continue
					}
					j++
					break
				}
				j++
			}
			out = append(out, Tok{Kind: "qident", Text: s[i:j]})
			i = j
		case c == '$':
			// dollar quoting $tag$ ... $tag$ or a positional parameter $1
			j := i + 1
			for j < n && (s[j] == '_' || unicode.IsLetter(rune(s[j])) || (j > i+1 && unicode.IsDigit(rune(s[j])))) {
				j++
			}
			if j < n && s[j] == '$' {
				tag := s[i : j+1]
				k := strings.Index(s[j+1:], tag)
				if k < 0 {
					out = append(out, Tok{Kind: "dollar", Text: s[i:], Val: s[j+1:]})
					i = n
				} else {
					end := j + 1 + k + len(tag)
					out = append(out, Tok{Kind: "dollar", Text: s[i:end], Val: s[j+1 : j+1+k]})
					i = end
				}
				break
			}
			j = i + 1
			for j < n && unicode.IsDigit(rune(s[j])) {
				j++
			}
			out = append(out, Tok{Kind: "op", Text: s[i:j]})
			i = j
		case unicode.IsDigit(rune(c)) || (c == '.' && i+1 < n && unicode.IsDigit(rune(s[i+1]))):
			j := i
			for j < n && (unicode.IsDigit(rune(s[j])) || s[j] == '.' || s[j] == 'e' || s[j] == 'E' || ((s[j] == '+' || s[j] == '-') && j > i && (s[j-1] == 'e' || s[j-1] == 'E'))) {
				j++
			}
			out = append(out, Tok{Kind: "num", Text: s[i:j]})
			i = j
		case c == '_' || unicode.IsLetter(rune(c)) || c >= 0x80:
			j := i
			for j < n && (s[j] == '_' || s[j] == '$' || s[j] >= 0x80 || unicode.IsLetter(rune(s[j])) || unicode.IsDigit(rune(s[j]))) {
				j++
			}
			out = append(out, Tok{Kind: "ident", Text: strings.ToLower(s[i:j])})
			i = j
		default:
			// multi-character operators that matter for structure
			for _, op := range []string{"::", "<=", ">=", "<>", "!=", "@>", "<@", "@@", "->>", "->", "||"} {
				if strings.HasPrefix(s[i:], op) {
					out = append(out, Tok{Kind: "op", Text: op})
					i += len(op)
					goto next
				}
			}
			out = append(out, Tok{Kind: "op", Text: string(c)})
			i++
		next:
		}
	}
	return out
}

// Skeleton: the statement with every literal replaced by a placeholder; comments count (a comment that swallows the
// rest of the statement changes the structure).
func Skeleton(toks []Tok) string {
	var sb strings.Builder
	for _, t := range toks {
		switch t.Kind {
		case "str", "dollar":
			sb.WriteString("'?' ")
		case "num":
			sb.WriteString("0 ")
		case "comment":
			sb.WriteString("/*c*/ ")
		default:
			sb.WriteString(t.Text + " ")
		}
	}
	return sb.String()
}

// OutsideLiterals: the statement text with string literals blanked.
func OutsideLiterals(toks []Tok) string {
	var sb strings.Builder
	for _, t := range toks {
		if t.Kind == "str" || t.Kind == "dollar" {
			sb.WriteString("'' ")
		} else {
			sb.WriteString(t.Text + " ")
		}
	}
	return sb.String()
}
