package main

import (
	"context"
	"database/sql/driver"
	"encoding/json"
	"fmt"
	"math/big"
	"net/url"
	"regexp"
	"sort"
	"strconv"
	"strings"
	"time"

	"github.com/formancehq/ledger/internal/verif/fakesql"
	vc "github.com/formancehq/ledger/internal/verif/vcommon"
	"github.com/formancehq/stack/libs/go-libs/bun/bunpaginate"
	"github.com/uptrace/bun"
)

// ---------------------------------------------------------------------------------------------- simulating driver
// Evaluates ONLY the pagination tail bunpaginate appends - the last `(id <|<=|>|>= N)` condition, ORDER BY, LIMIT,
// OFFSET - over an in-memory relation; the rest of the statement is an opaque relation (returned as `base`).

var (
	reCond  = regexp.MustCompile(`(?: AND| WHERE) \((?:"?\w+"?\.)?"?id"? (<=|>=|<|>) '?(-?\d+)'?\)$`)
	reLimit = regexp.MustCompile(` LIMIT (\d+)`)
	reOff   = regexp.MustCompile(` OFFSET (\d+)`)
)

type tail struct {
	base   string
	op     string
	bound  *big.Int
	desc   bool
	limit  int
	offset int
	order  string
}

func parseTail(sql string) (tail, bool) {
	t := tail{limit: -1}
	i := strings.LastIndex(sql, " ORDER BY ")
	if i < 0 {
		return t, false
	}
	head, rest := sql[:i], sql[i+len(" ORDER BY "):]
	if m := reLimit.FindStringSubmatch(rest); m != nil {
		t.limit, _ = strconv.Atoi(m[1])
	}
	if m := reOff.FindStringSubmatch(rest); m != nil {
		t.offset, _ = strconv.Atoi(m[1])
	}
	t.order = strings.TrimSpace(reOff.ReplaceAllString(reLimit.ReplaceAllString(rest, ""), ""))
	t.desc = strings.HasSuffix(strings.ToUpper(strings.Split(t.order, ",")[0]), " DESC")
	if m := reCond.FindStringSubmatch(head); m != nil {
		t.op = m[1]
		t.bound, _ = new(big.Int).SetString(m[2], 10)
		head = head[:len(head)-len(m[0])]
	}
	t.base = head
	return t, true
}

type relation struct {
	ids   []*big.Int // unique
	kind  string     // items | logs | transactions | accounts
	stmts []string
	tails []tail
}

func (rel *relation) handler() fakesql.Handler {
	return func(text string, _ []driver.Value) ([]string, [][]driver.Value, error) {
		t, ok := parseTail(text)
		if !ok {
			return nil, nil, nil
		}
		rel.stmts = append(rel.stmts, text)
		rel.tails = append(rel.tails, t)
		var sel []*big.Int
		for _, id := range rel.ids {
			keep := true
			if t.bound != nil {
				c := id.Cmp(t.bound)
				switch t.op {
				case "<":
					keep = c < 0
				case "<=":
					keep = c <= 0
				case ">":
					keep = c > 0
				case ">=":
					keep = c >= 0
				}
			}
			if keep {
				sel = append(sel, id)
			}
		}
		sort.Slice(sel, func(a, b int) bool {
			if t.desc {
				return sel[a].Cmp(sel[b]) > 0
			}
			return sel[a].Cmp(sel[b]) < 0
		})
		if t.offset > 0 {
			if t.offset >= len(sel) {
				sel = nil
			} else {
				sel = sel[t.offset:]
			}
		}
		if t.limit >= 0 && len(sel) > t.limit {
			sel = sel[:t.limit]
		}
		return rel.rows(sel)
	}
}

func (rel *relation) rows(sel []*big.Int) ([]string, [][]driver.Value, error) {
	ts := time.Date(2023, 1, 1, 0, 0, 0, 0, time.UTC)
	var cols []string
	var out [][]driver.Value
	switch rel.kind {
	case "items":
		cols = []string{"id"}
		for _, id := range sel {
			out = append(out, []driver.Value{[]byte(id.String())})
		}
	case "logs":
		cols = []string{"ledger", "id", "type", "hash", "date", "data", "idempotency_key"}
		for _, id := range sel {
			out = append(out, []driver.Value{"l1", []byte(id.String()), "SET_METADATA", []byte{1, 2}, ts, []byte(`{"targetType":"ACCOUNT","targetId":"a","metadata":{}}`), ""})
		}
	case "transactions":
		cols = []string{"id", "timestamp", "reference", "postings", "metadata"}
		for _, id := range sel {
			out = append(out, []driver.Value{[]byte(id.String()), ts, nil, []byte(`[{"source":"world","destination":"a","amount":1,"asset":"USD"}]`), []byte(`{}`)})
		}
	case "accounts":
		cols = []string{"address", "metadata"}
		for _, id := range sel {
			out = append(out, []driver.Value{fmt.Sprintf("acc%s", id), []byte(`{}`)})
		}
	}
	return cols, out, nil
}

func makeIDs(r *vc.Rand, n int, style int) []*big.Int {
	ids := make([]*big.Int, n)
	cur := big.NewInt(int64(r.Intn(3)))
	for i := 0; i < n; i++ {
		ids[i] = new(big.Int).Set(cur)
		step := int64(1)
		switch style {
		case 1:
			step = int64(1 + r.Intn(5)) // gaps
		case 2:
			if i == n/2 {
				cur = new(big.Int).Lsh(big.NewInt(1), 64) // jump beyond 64 bits
			}
		}
		cur = new(big.Int).Add(cur, big.NewInt(step))
	}
	return ids
}

func idsString(ids []*big.Int) string {
	s := make([]string, len(ids))
	for i, x := range ids {
		s[i] = x.String()
	}
	return strings.Join(s, ",")
}

// ---------------------------------------------------------------------------------------------- direct walks

type item struct {
	bun.BaseModel `bun:"items,alias:items"`
	ID            *bunpaginate.BigInt `bun:"id,type:numeric"`
}

type page struct {
	ids        []string
	next, prev string
	hasMore    bool
}

type walkDesc struct {
	Level    string `json:"level"`
	Size     int    `json:"collection_size"`
	PageSize int    `json:"page_size"`
	Order    string `json:"order"`
	IDs      string `json:"ids_style"`
	Filter   string `json:"filter,omitempty"`
	Options  string `json:"options,omitempty"`
}

// cursorRule: a cursor that is refused and a cursor that is accepted but stands for another query are different failures.
func cursorRule(dir string, err error) string {
	if strings.Contains(err.Error(), "does not stand for the same query") {
		return dir + "-cursor-stands-for-another-query"
	}
	return dir + "-cursor-rejected"
}

// checkWalk: forward until hasMore is false, then back through `previous`.
func checkWalk(rep *vc.Report, idx int, d walkDesc, expect []string, first func() (*page, error), follow func(token string) (*page, error)) {
	rep.Eval()
	rep.Inc("walks")
	viol := func(rule, what string) { rep.Violate(d.Level+":"+rule, what, idx, d) }
	var pages []*page
	p, err := first()
	if err != nil {
		viol("first-page-error", err.Error())
		return
	}
	var got []string
	for steps := 0; ; steps++ {
		pages = append(pages, p)
		got = append(got, p.ids...)
		rep.Inc("pages_fetched")
		if d.PageSize > 0 && len(p.ids) > d.PageSize {
			viol("page-larger-than-page-size", fmt.Sprintf("page %d has %d items", len(pages)-1, len(p.ids)))
			return
		}
		if !p.hasMore {
			break
		}
		if p.next == "" {
			viol("hasmore-without-next", fmt.Sprintf("page %d", len(pages)-1))
			return
		}
		if steps > len(expect)+5 {
			viol("traversal-does-not-end", fmt.Sprintf("more than %d pages", steps))
			return
		}
		p, err = follow(p.next)
		if err != nil {
			viol(cursorRule("next", err), err.Error())
			return
		}
	}
	if strings.Join(got, ",") != strings.Join(expect, ",") {
		viol("forward-traversal-differs", fmt.Sprintf("expected %v\n     got %v", expect, got))
		return
	}
	// previous from page k must be page k-1
	for k := len(pages) - 1; k >= 1; k-- {
		cur := pages[k]
		if cur.prev == "" {
			viol("no-previous-cursor", fmt.Sprintf("page %d of %d has no previous", k, len(pages)))
			return
		}
		q, err := follow(cur.prev)
		if err != nil {
			viol(cursorRule("previous", err), err.Error())
			return
		}
		rep.Inc("previous_hops")
		if strings.Join(q.ids, ",") != strings.Join(pages[k-1].ids, ",") {
			viol("previous-is-not-the-page-before", fmt.Sprintf("previous of page %d = %v, page %d = %v", k, q.ids, k-1, pages[k-1].ids))
			return
		}
	}
	// chained backward walk from the last page (consecutive previous hops)
	cur := pages[len(pages)-1]
	for k := len(pages) - 1; k >= 1; k-- {
		q, err := follow(cur.prev)
		if err != nil {
			viol(cursorRule("previous", err), err.Error())
			return
		}
		if strings.Join(q.ids, ",") != strings.Join(pages[k-1].ids, ",") {
			viol("chained-previous-differs", fmt.Sprintf("%d hops back from the last page: %v, expected page %d = %v", len(pages)-k, q.ids, k-1, pages[k-1].ids))
			return
		}
		if k-1 >= 1 && q.prev == "" {
			viol("no-previous-cursor", fmt.Sprintf("page %d reached backwards has no previous", k-1))
			return
		}
		// and forward again from a page reached backwards
		if q.next != "" {
			f, err := follow(q.next)
			if err != nil {
				viol(cursorRule("next", err), err.Error())
				return
			}
			if strings.Join(f.ids, ",") != strings.Join(pages[k].ids, ",") {
				viol("next-after-previous-differs", fmt.Sprintf("next of page %d reached backwards = %v, expected %v", k-1, f.ids, pages[k].ids))
				return
			}
		} else {
			viol("no-next-after-previous", fmt.Sprintf("page %d reached backwards", k-1))
			return
		}
		cur = q
	}
	if len(pages) > 2 {
		rep.Inc("walks_with_3plus_pages")
	}
	rep.DistinctCase(vc.Hash64(vc.MustJSON(d)))
	if rep.WantSample() && len(pages) > 2 {
		rep.Sample(map[string]any{"walk": d, "pages": len(pages), "first_page": pages[0].ids, "last_page": pages[len(pages)-1].ids})
	}
}

func expectOrder(ids []*big.Int, desc bool) []string {
	s := append([]*big.Int{}, ids...)
	sort.Slice(s, func(a, b int) bool {
		if desc {
			return s[a].Cmp(s[b]) > 0
		}
		return s[a].Cmp(s[b]) < 0
	})
	out := make([]string, len(s))
	for i, x := range s {
		out[i] = x.String()
	}
	return out
}

func directColumnWalk(rep *vc.Report, idx int, ids []*big.Int, pageSize int, order bunpaginate.Order, style string) {
	rel := &relation{ids: ids, kind: "items"}
	db, rec := fakesql.Open()
	defer db.Close()
	rec.Handler = rel.handler()
	ctx := context.Background()
	run := func(q bunpaginate.ColumnPaginatedQuery[struct{}]) (*page, error) {
		c, err := bunpaginate.UsingColumn[struct{}, item](ctx, db.NewSelect().Table("items"), q)
		if err != nil {
			return nil, err
		}
		p := &page{next: c.Next, prev: c.Previous, hasMore: c.HasMore}
		for _, it := range c.Data {
			p.ids = append(p.ids, (*big.Int)(it.ID).String())
		}
		return p, nil
	}
	d := walkDesc{Level: "bunpaginate.UsingColumn", Size: len(ids), PageSize: pageSize, Order: order.String(), IDs: style}
	checkWalk(rep, idx, d, expectOrder(ids, order == bunpaginate.OrderDesc),
		func() (*page, error) {
			return run(bunpaginate.ColumnPaginatedQuery[struct{}]{PageSize: uint64(pageSize), Column: "id", Order: order})
		},
		func(tok string) (*page, error) {
			var q bunpaginate.ColumnPaginatedQuery[struct{}]
			if err := bunpaginate.UnmarshalCursor(tok, &q); err != nil {
				return nil, err
			}
			return run(q)
		})
}

func directOffsetWalk(rep *vc.Report, idx int, ids []*big.Int, pageSize int, style string) {
	rel := &relation{ids: ids, kind: "items"}
	db, rec := fakesql.Open()
	defer db.Close()
	rec.Handler = rel.handler()
	ctx := context.Background()
	run := func(q bunpaginate.OffsetPaginatedQuery[struct{}]) (*page, error) {
		c, err := bunpaginate.UsingOffset[struct{}, item](ctx, db.NewSelect().Table("items").OrderExpr("id ASC"), q)
		if err != nil {
			return nil, err
		}
		p := &page{next: c.Next, prev: c.Previous, hasMore: c.HasMore}
		for _, it := range c.Data {
			p.ids = append(p.ids, (*big.Int)(it.ID).String())
		}
		return p, nil
	}
	d := walkDesc{Level: "bunpaginate.UsingOffset", Size: len(ids), PageSize: pageSize, Order: "ASC", IDs: style}
	checkWalk(rep, idx, d, expectOrder(ids, false),
		func() (*page, error) {
			return run(bunpaginate.OffsetPaginatedQuery[struct{}]{PageSize: uint64(pageSize)})
		},
		func(tok string) (*page, error) {
			var q bunpaginate.OffsetPaginatedQuery[struct{}]
			if err := bunpaginate.UnmarshalCursor(tok, &q); err != nil {
				return nil, err
			}
			return run(q)
		})
}

// ---------------------------------------------------------------------------------------------- HTTP walks

type listEndpoint struct {
	name, path, kind string
	v2               bool
	desc             bool
	filters          []string // JSON bodies (v2) or query strings (v1)
}

var listEndpoints = []listEndpoint{
	{"v2-transactions", "/api/ledger/v2/l1/transactions", "transactions", true, true,
		[]string{"", `{"$match":{"reference":"r1"}}`, `{"$and":[{"$match":{"metadata[k]":"v"}},{"$gte":{"timestamp":"2023-01-01T00:00:00Z"}}]}`, `{"$match":{"account":"users:"}}`, `{"$or":[{"$match":{"source":"a"}},{"$match":{"destination":"b"}}]}`, `{"$not":{"$match":{"reference":"r1"}}}`, `{"$and":[{"$not":{"$match":{"account":"users:"}}},{"$match":{"metadata[k]":"v"}}]}`}},
	{"v2-logs", "/api/ledger/v2/l1/logs", "logs", true, true, []string{"", `{"$gte":{"date":"2023-01-01T00:00:00Z"}}`, `{"$and":[{"$lt":{"date":"2024-01-01T00:00:00Z"}},{"$gte":{"date":"2023-01-01T00:00:00Z"}}]}`}},
	{"v2-accounts", "/api/ledger/v2/l1/accounts", "accounts", true, false, []string{"", `{"$match":{"address":"users:"}}`, `{"$match":{"metadata[k]":"v"}}`, `{"$lt":{"balance[USD]":100}}`, `{"$not":{"$match":{"address":"users:"}}}`, `{"$not":{"$or":[{"$match":{"address":"a"}},{"$gte":{"balance[USD]":5}}]}}`}},
	{"v1-transactions", "/api/ledger/l1/transactions", "transactions", false, true, []string{"", "reference=r1", "account=users:", "source=a&destination=b", "metadata[k]=v"}},
	{"v1-logs", "/api/ledger/l1/logs", "logs", false, true, []string{"", "start_time=2023-01-01T00:00:00Z", "start_time=2023-01-01T00:00:00Z&end_time=2024-01-01T00:00:00Z"}},
	{"v1-accounts", "/api/ledger/l1/accounts", "accounts", false, false, []string{"", "address=users:", "metadata[k]=v", "balance=10&balanceOperator=gte", "balance=10&balanceOperator=ne", "balance=0&balanceOperator=e"}},
}

// spiceFilter: puts text into the filter whose bytes produce every base64 symbol (incl. the two that differ between the
// standard and the URL alphabet) at varying alignments: '?', '~', '>', non-ASCII.
func spiceFilter(r *vc.Rand, ep listEndpoint, filter string) string {
	spice := strings.Repeat("x", r.Intn(3)) + vc.Pick(r, []string{"paid?", "¿pagado?~", ">>>???~~~", "日本語?", "ÿþ~?>", "a?b~c>d"})
	if ep.v2 {
		switch ep.kind {
		case "transactions":
			return fmt.Sprintf(`{"$match":{"metadata[k]":%q}}`, spice)
		case "accounts":
			return fmt.Sprintf(`{"$match":{"metadata[k]":%q}}`, spice)
		default:
			return filter
		}
	}
	if ep.kind == "logs" {
		return filter
	}
	return "metadata[k]=" + spice
}

// listOptions: the query options of the v2 transaction / account listings that change the statement (not the rows)
var listOptions = []string{"", "", "expand=volumes", "expand=effectiveVolumes", "expand=volumes&expand=effectiveVolumes", "pit=2023-06-01T00:00:00Z", "pit=2023-06-01T00:00:00Z&expand=volumes", "pit=2023-06-01T00:00:00Z&expand=effectiveVolumes"}

func httpWalk(rep *vc.Report, idx int, ep listEndpoint, filter string, ids []*big.Int, pageSize int, style string, opts string) {
	rel := &relation{ids: ids, kind: ep.kind}
	e := newEnv(rel.handler(), "l1")
	d := walkDesc{Level: "http:" + ep.name, Size: len(ids), PageSize: pageSize, Order: map[bool]string{true: "DESC", false: "ASC"}[ep.desc], IDs: style, Filter: filter, Options: opts}
	if filter != "" {
		d.Level += ":filtered"
		rep.Inc("http_walks_with_filter")
	}
	if opts != "" {
		d.Level += ":options"
		rep.Inc("http_walks_with_expand_or_pit")
	}
	var firstBase string
	fetch := func(target, body string) (*page, error) {
		rel.stmts, rel.tails = nil, nil
		code, resp, _, pv := e.do("GET", target, body)
		if pv != nil {
			return nil, fmt.Errorf("handler panicked: %v", pv)
		}
		if code != 200 {
			return nil, fmt.Errorf("HTTP %d: %s", code, strings.TrimSpace(resp))
		}
		var out struct {
			Cursor struct {
				HasMore  bool              `json:"hasMore"`
				Previous string            `json:"previous"`
				Next     string            `json:"next"`
				Data     []json.RawMessage `json:"data"`
			} `json:"cursor"`
		}
		if err := json.Unmarshal([]byte(resp), &out); err != nil {
			return nil, fmt.Errorf("response: %v", err)
		}
		p := &page{next: out.Cursor.Next, prev: out.Cursor.Previous, hasMore: out.Cursor.HasMore}
		for _, raw := range out.Cursor.Data {
			var it struct {
				ID      *big.Int `json:"id"`
				TxID    *big.Int `json:"txid"`
				Address string   `json:"address"`
			}
			if err := json.Unmarshal(raw, &it); err != nil {
				return nil, err
			}
			switch {
			case it.Address != "":
				p.ids = append(p.ids, strings.TrimPrefix(it.Address, "acc"))
			case it.TxID != nil:
				p.ids = append(p.ids, it.TxID.String())
			case it.ID != nil:
				p.ids = append(p.ids, it.ID.String())
			}
		}
		// the statement behind every page must be the first page's statement up to the pagination tail
		if len(rel.tails) > 0 {
			base := rel.tails[len(rel.tails)-1].base
			if firstBase == "" {
				firstBase = base
			} else if skeletonOf(base) != skeletonOf(firstBase) {
				return nil, fmt.Errorf("the cursor does not stand for the same query: first page %q, this page %q", firstBase, base)
			}
		}
		return p, nil
	}
	firstTarget := ep.path + "?pageSize=" + strconv.Itoa(pageSize)
	if opts != "" {
		firstTarget += "&" + strings.ReplaceAll(opts, ":", "%3A")
	}
	body := ""
	if ep.v2 {
		body = filter
	} else if filter != "" {
		firstTarget += "&" + encodeQuery(filter)
	}
	checkWalk(rep, idx, d, expectOrder(ids, ep.desc),
		func() (*page, error) { return fetch(firstTarget, body) },
		func(tok string) (*page, error) { return fetch(ep.path+"?cursor="+url.QueryEscape(tok), "") })
}

func encodeQuery(q string) string {
	v := url.Values{}
	for _, kv := range strings.Split(q, "&") {
		p := strings.SplitN(kv, "=", 2)
		v.Set(p[0], p[1])
	}
	return v.Encode()
}

// skeletonOf: literals blanked, so that e.g. a point-in-time rendered twice compares equal only if it is the same
// literal - we keep literal *contents* in the comparison by using the token texts.
func skeletonOf(sql string) string {
	var sb strings.Builder
	for _, t := range Lex(sql) {
		sb.WriteString(t.Text + " ")
	}
	return sb.String()
}

// ---------------------------------------------------------------------------------------------- C17

func runC17(cfg *vc.Config, rep *vc.Report) {
	pageSizes := func(n int) []int { return []int{1, 2, 3, 5, 7, 15, n, n + 1} }
	// exhaustive small grid (shard 0): sizes 0..40 x page sizes x both orders x both paginators
	if cfg.Shard == 0 && cfg.Only < 0 {
		gr := vc.NewRand(17)
		maxN := 40
		for n := 0; n <= maxN; n++ {
			ids := makeIDs(gr, n, 0)
			for _, ps := range pageSizes(n) {
				if ps == 0 {
					continue
				}
				directColumnWalk(rep, -1, ids, ps, bunpaginate.OrderAsc, "contiguous")
				directColumnWalk(rep, -1, ids, ps, bunpaginate.OrderDesc, "contiguous")
				directOffsetWalk(rep, -1, ids, ps, "contiguous")
				rep.Add("grid_walks", 3)
			}
		}
	}
	cfg.Cases(3000, 150000, func(i int, r *vc.Rand) {
		n := r.Intn(60)
		if cfg.Tier == "thorough" && r.Chance(1, 10) {
			n = r.Intn(400)
		}
		style := r.Intn(3)
		ids := makeIDs(r, n, style)
		styleName := []string{"contiguous", "gaps", "beyond-64-bit"}[style]
		ps := vc.Pick(r, []int{1, 2, 3, 4, 5, 7, 10, 15, n, n + 1, 100})
		if ps == 0 {
			ps = 1
		}
		if r.Chance(1, 12) { // page sizes above the default maximum of 100 (API v1 accepts up to 1000; direct callers any size)
			n = r.Range(90, 420)
			ids = makeIDs(r, n, style)
			ps = vc.Pick(r, []int{99, 100, 101, 128, 150, 250, 400, 1000})
			rep.Inc("walks_with_page_size_over_100_candidates")
		}
		rep.Current(map[string]any{"index": i, "n": n, "page_size": ps, "style": styleName})
		switch r.Intn(4) {
		case 0:
			directColumnWalk(rep, i, ids, ps, vc.Pick(r, []bunpaginate.Order{bunpaginate.OrderAsc, bunpaginate.OrderDesc}), styleName)
		case 1:
			directOffsetWalk(rep, i, ids, ps, styleName)
		default:
			ep := vc.Pick(r, listEndpoints)
			if ps > 100 && ep.v2 {
				ps = 100 // v2 clamps the page size
			}
			f := vc.Pick(r, ep.filters)
			if r.Chance(1, 3) {
				f = spiceFilter(r, ep, f)
				rep.Inc("http_walks_with_spiced_filter")
			}
			opts := ""
			if ep.v2 && ep.kind != "logs" {
				opts = vc.Pick(r, listOptions)
			}
			httpWalk(rep, i, ep, f, ids, ps, styleName, opts)
			rep.Inc("http_walks")
		}
	})
}
