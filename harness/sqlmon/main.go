// sqlmon: monitors at the SQL driver boundary (C20 filter values are data; C17 cursors; C04 Go half of the read path).
package main

import (
	"database/sql/driver"
	"fmt"
	"io"
	"net/http"
	"net/http/httptest"
	"net/url"
	"os"
	"strings"

	"github.com/formancehq/ledger/internal/api"
	"github.com/formancehq/ledger/internal/opentelemetry/metrics"
	"github.com/formancehq/ledger/internal/storage/ledgerstore"
	"github.com/formancehq/ledger/internal/verif/apiback"
	"github.com/formancehq/ledger/internal/verif/fakesql"
	vc "github.com/formancehq/ledger/internal/verif/vcommon"
	"github.com/formancehq/stack/libs/go-libs/auth"
	"github.com/formancehq/stack/libs/go-libs/health"
	"github.com/sirupsen/logrus"
)

func main() {
	if len(os.Args) > 1 && os.Args[1] == "probe-statements" {
		probeStatements()
		return
	}
	logrus.SetOutput(io.Discard)
	cfg := vc.ParseFlags()
	rep := vc.NewReport(cfg)
	switch cfg.Prop {
	case "C20":
		runC20(cfg, rep)
	case "C17":
		runC17(cfg, rep)
	case "C04":
		if cfg.Mode == "decode" {
			runC04Decode(cfg, rep)
		} else {
			runC04(cfg, rep)
		}
	default:
		fmt.Fprintln(os.Stderr, "sqlmon: unknown property", cfg.Prop)
		os.Exit(3)
	}
	rep.Write(true)
}

// env: the real router on a monitoring backend whose reads go to a real ledgerstore.Store on a recording driver.
type env struct {
	rec *fakesql.Recorder
	h   http.Handler
	b   *apiback.MonBackend
}

func newEnv(handler fakesql.Handler, ledgers ...string) *env {
	db, rec := fakesql.Open()
	rec.Handler = handler
	b := &apiback.MonBackend{Stores: map[string]*ledgerstore.Store{}}
	for _, l := range ledgers {
		b.Stores[l] = ledgerstore.NewStoreForVerif(db, "bucket0", l)
	}
	h := api.NewRouter(b, health.NewHealthController(nil), metrics.NewNoOpRegistry(), auth.NewNoAuth(), false)
	return &env{rec: rec, h: h, b: b}
}

func (e *env) do(method, target, body string) (code int, resp string, stmts []fakesql.Stmt, panicked any) {
	defer func() {
		if p := recover(); p != nil {
			panicked = p
			stmts = e.rec.Snapshot()
		}
	}()
	e.rec.Reset()
	e.b.Take()
	req, err := http.NewRequest(method, "http://ledger.test"+target, strings.NewReader(body))
	if err != nil {
		return -1, err.Error(), nil, nil
	}
	if body != "" {
		req.Header.Set("Content-Type", "application/json")
	}
	w := httptest.NewRecorder()
	e.h.ServeHTTP(w, req)
	return w.Code, w.Body.String(), e.rec.Snapshot(), nil
}

// ------------------------------------------------------------------------------------------------ C20

const marker = "zqx"

var hostile = []string{
	"zqx'", "zqx''", "zqx' or '1'='1", "zqx\\", "zqx\\'", "zqx\\' or 1=1 --", "zqx\"", "zqx--", "zqx/*", "zqx*/", "zqx;select 1", "zqx?", "zqx ? ?", "zqx$$", "zqx$1", "zqx$tag$",
	"zqx\x00'", "zqxé'", "zqx" + strings.Repeat("'a", 60), "zqx{}", "zqx\"]", "zqx$[0]", "zqx)", "zqx')::jsonpath or true--", "zqx\" || \"", "zqx\n'", "zqx%", "zqx_%'", "zqx'::text", "E'zqx\\'", "zqx''--",
	"zqx?0", "zqx?1", "zqx?0?1 ?", "?0zqx'", "zqx?0:x?1", // positional placeholders: another clause's value would be substituted into the text
	"zqx ORDER BY 1", "zqx ORDER BY id DESC LIMIT 1", "zqx WHERE 1=1", "zqx GROUP BY x", "a ORDER BY zqx", "zqx LIMIT 1 OFFSET 2", "zqx) data", "zqx UNION SELECT 1", // keywords a builder may search the rendered text for
	"zqx", // benign control: must behave like the baseline
}

// addressShapes embeds a hostile token into address forms (plain, segmented, with empty segments).
func addressShapes(r *vc.Rand, h string) string {
	switch r.Intn(6) {
	case 0:
		return h
	case 1:
		return "users:" + h
	case 2:
		return h + ":"
	case 3:
		return ":" + h
	case 4:
		return "a::" + h
	}
	return h + ":b:" + h
}

// benignOf: a harmless value of the same shape (same number of ':' segments, same empty segments).
func benignOf(v string, isAddress bool) string {
	if !isAddress {
		return "x"
	}
	parts := strings.Split(v, ":")
	for i, p := range parts {
		if p != "" {
			parts[i] = "x"
		}
	}
	return strings.Join(parts, ":")
}

type filterCase struct {
	Endpoint string `json:"endpoint"`
	Key      string `json:"key"`
	Op       string `json:"operator,omitempty"`
	Position string `json:"hostile_position"` // value | metadata-key | asset | operator | path
	Value    string `json:"value"`
	Method   string `json:"method"`
	Target   string `json:"target"`
	Body     string `json:"body,omitempty"`
}

type endpointV2 struct {
	name, method, path string
	keys               []string // filter keys ("address" kind keys are shaped as addresses)
}

var v2Endpoints = []endpointV2{
	{"v2-accounts", "GET", "/api/ledger/v2/l1/accounts", []string{"address", "metadata[k]", "balance[USD]", "balance"}},
	{"v2-accounts-count", "HEAD", "/api/ledger/v2/l1/accounts", []string{"address", "metadata[k]", "balance[USD]"}},
	{"v2-transactions", "GET", "/api/ledger/v2/l1/transactions", []string{"reference", "timestamp", "account", "source", "destination", "metadata[k]"}},
	{"v2-transactions-count", "HEAD", "/api/ledger/v2/l1/transactions", []string{"reference", "account", "source", "destination", "metadata[k]"}},
	{"v2-aggregate-balances", "GET", "/api/ledger/v2/l1/aggregate/balances", []string{"address", "metadata[k]"}},
	{"v2-logs", "GET", "/api/ledger/v2/l1/logs", []string{"date"}},
}

// altKeys: harmless keys per v2 endpoint (a hostile key may be interpreted as any of them)
var altKeys = map[string][]string{}

func init() {
	for _, ep := range v2Endpoints {
		altKeys[ep.name] = append(append([]string{}, ep.keys...), "metadata[x]")
	}
}

type endpointV1 struct {
	name, path string
	params     []string
}

var v1Endpoints = []endpointV1{
	{"v1-accounts", "/api/ledger/l1/accounts", []string{"address", "metadata[k]", "balance", "pit", "after"}},
	{"v1-transactions", "/api/ledger/l1/transactions", []string{"reference", "account", "source", "destination", "start_time", "end_time", "metadata[k]", "after", "pit"}},
	{"v1-balances", "/api/ledger/l1/balances", []string{"address", "pit", "after"}},
	{"v1-aggregate-balances", "/api/ledger/l1/aggregate/balances", []string{"address", "pit"}},
	{"v1-logs", "/api/ledger/l1/logs", []string{"start_time", "end_time", "after", "pit"}},
}

func isAddressKey(k string) bool {
	switch k {
	case "address", "account", "source", "destination":
		return true
	}
	return false
}

func jsonStr(s string) string { return vc.MustJSON(s) }

func buildV2(ep endpointV2, key, op, value string, extraAnd int) (string, string) {
	val := jsonStr(value)
	if extraAnd >= 10 { // the value is a JSON array (a list of values), the hostile text one of its elements
		extraAnd -= 10
		val = "[" + jsonStr("users:001") + ", " + jsonStr(value) + "]"
	}
	body := fmt.Sprintf(`{%s: {%s: %s}}`, jsonStr(op), jsonStr(key), val)
	other := `{"$match": {"metadata[z]": "o'o"}}`
	switch extraAnd {
	case 1: // other value-carrying clause first
		body = fmt.Sprintf(`{"$and": [%s, {"$or": [%s]}]}`, other, body)
	case 2: // ... or after
		body = fmt.Sprintf(`{"$and": [{"$or": [%s]}, %s]}`, body, other)
	case 3:
		body = fmt.Sprintf(`{"$or": [%s, %s, %s]}`, other, body, other)
	}
	return ep.path + "?pageSize=5", body
}

func genFilterCase(r *vc.Rand, value string) (hostileCase, benignCase filterCase) {
	if r.Chance(3, 5) {
		ep := vc.Pick(r, v2Endpoints)
		key := vc.Pick(r, ep.keys)
		op := "$match"
		if !isAddressKey(key) && !strings.HasPrefix(key, "metadata") && r.Chance(1, 2) {
			op = vc.Pick(r, []string{"$lt", "$lte", "$gt", "$gte"})
		}
		pos := "value"
		hv, bv := value, benignOf(value, isAddressKey(key))
		hkey, bkey := key, key
		switch {
		case strings.HasPrefix(key, "metadata") && r.Chance(1, 3):
			pos = "metadata-key"
			hkey, bkey = "metadata["+value+"]", "metadata[x]"
			hv, bv = "v", "v"
		case strings.HasPrefix(key, "balance[") && r.Chance(1, 2):
			pos = "asset"
			hkey, bkey = "balance["+value+"]", "balance[x]"
			hv, bv = "10", "10"
		case isAddressKey(key):
			hv = addressShapes(r, value)
			bv = benignOf(hv, true)
		}
		if r.Chance(1, 8) {
			// the filter key itself: hostile text wrapped around a valid column name (prefix / suffix / both)
			pos = "key"
			base := strings.SplitN(key, "[", 2)[0]
			hkey = vc.Pick(r, []string{base + " " + value, value + " " + base, base + " = '' or true or " + base, base + value, base + "/*" + value + "*/", base + "\n" + value + " " + base, base + "[" + value, "metadata[" + value + "] or " + base})
			bkey = key
			hv, bv = "v", "v"
			if isAddressKey(key) {
				hv, bv = "x:", "x:"
			}
		}
		and := 0
		if r.Chance(1, 2) {
			and = r.Range(1, 3)
		}
		if pos == "value" && r.Chance(1, 8) {
			and += 10
			pos = "value-in-list"
		}
		ht, hb := buildV2(ep, hkey, op, hv, and)
		bt, bb := buildV2(ep, bkey, op, bv, and)
		return filterCase{Endpoint: ep.name, Key: key, Op: op, Position: pos, Value: hv, Method: ep.method, Target: ht, Body: hb},
			filterCase{Endpoint: ep.name, Key: key, Op: op, Position: pos, Value: bv, Method: ep.method, Target: bt, Body: bb}
	}
	ep := vc.Pick(r, v1Endpoints)
	p := vc.Pick(r, ep.params)
	pos := "value"
	hv, bv := value, benignOf(value, isAddressKey(p))
	hp, bp := p, p
	if isAddressKey(p) {
		hv = addressShapes(r, value)
		bv = benignOf(hv, true)
	}
	if strings.HasPrefix(p, "metadata") && r.Chance(1, 3) {
		pos = "metadata-key"
		hp, bp = "metadata["+value+"]", "metadata[x]"
		hv, bv = "v", "v"
	}
	twoParams := r.Chance(1, 2)
	mk := func(param, v string) string {
		q := url.Values{}
		q.Set(param, v)
		q.Set("pageSize", "5")
		if twoParams && !strings.HasPrefix(param, "metadata") {
			q.Set("metadata[z]", "o'o") // a second value-carrying clause
		}
		if twoParams && strings.HasPrefix(param, "metadata") && strings.Contains(ep.path, "accounts") {
			q.Set("address", "x:")
		}
		if param == "balance" {
			q.Set("balanceOperator", vc.Pick(r, []string{"e", "ne", "gt", "lte"}))
		}
		return ep.path + "?" + q.Encode()
	}
	if p == "balance" { // numeric parameter: the hostile text goes where a client can put it - the operator
		pos = "operator"
		return filterCase{Endpoint: ep.name, Key: p, Position: pos, Value: value, Method: "GET", Target: ep.path + "?balance=10&balanceOperator=" + url.QueryEscape(value)},
			filterCase{Endpoint: ep.name, Key: p, Position: pos, Value: "x", Method: "GET", Target: ep.path + "?balance=10&balanceOperator=x"}
	}
	return filterCase{Endpoint: ep.name, Key: p, Position: pos, Value: hv, Method: "GET", Target: mk(hp, hv)},
		filterCase{Endpoint: ep.name, Key: p, Position: pos, Value: bv, Method: "GET", Target: mk(bp, bv)}
}

func skeletons(stmts []fakesql.Stmt) (sk []string, outside []string) {
	for _, s := range stmts {
		if s.Kind != "query" && s.Kind != "exec" {
			continue
		}
		t := Lex(s.Text)
		sk = append(sk, Skeleton(t))
		outside = append(outside, OutsideLiterals(t))
		for _, a := range s.Args { // bound parameters are data by construction
			_ = a
		}
	}
	return
}

func argsContain(stmts []fakesql.Stmt, m string) bool {
	for _, s := range stmts {
		for _, a := range s.Args {
			switch x := a.(type) {
			case string:
				if strings.Contains(x, m) {
					return true
				}
			case []byte:
				if strings.Contains(string(x), m) {
					return true
				}
			}
		}
	}
	return false
}

var _ driver.Value

func runC20(cfg *vc.Config, rep *vc.Report) {
	e := newEnv(nil, "l1")
	seenPair := map[string]bool{}
	cfg.Cases(40000, 2000000, func(i int, r *vc.Rand) {
		value := vc.Pick(r, hostile)
		if r.Chance(1, 4) { // random composition
			value = marker
			for k := r.Range(1, 4); k > 0; k-- {
				value += vc.Pick(r, []string{"'", "''", "\\", "\"", "--", "/*", "*/", ";", "?", "$$", "$1", ")", "(", " or ", "1=1", "\x00", "é", "::", "%", "{", "}", "[", "]", "\n", "E'"})
			}
		}
		hc, bc := genFilterCase(r, value)
		rep.Current(hc)
		rep.Eval()
		bcode, _, bst, bp := e.do(bc.Method, bc.Target, bc.Body)
		hcode, _, hst, hp := e.do(hc.Method, hc.Target, hc.Body)
		bsk, _ := skeletons(bst)
		hsk, hout := skeletons(hst)
		pair := hc.Endpoint + ":" + hc.Key
		if len(bsk) > 0 && !seenPair[pair] {
			seenPair[pair] = true
			rep.Inc("pairs_with_baseline_statement")
		}
		if len(bsk) > 0 {
			rep.Inc("baseline_with_statements")
		}
		sig := hc.Endpoint + ":" + hc.Key + ":" + hc.Position
		switch {
		case hp != nil && bp == nil:
			rep.Inc("hostile_request_panicked")
			if len(hsk) == 0 {
				rep.Inc("rejected_before_sql")
				return
			}
		case len(hsk) == 0:
			rep.Inc("rejected_before_sql") // the request was refused (or failed) before any statement was sent
			return
		}
		rep.Inc("statements_compared")
		rep.DistinctCase(vc.Hash64(hc.Target, hc.Body))
		if hc.Position == "key" && strings.Join(hsk, "\n") != strings.Join(bsk, "\n") {
			// a hostile key may legitimately be read as another kind of filter (the metadata[...] / balance[...] key patterns
			// are not anchored): what matters is that the statement is the statement of SOME harmless key of this endpoint
			rep.Inc("hostile_keys_accepted")
			ok := false
			for _, alt := range altKeys[hc.Endpoint] {
				ab := strings.Replace(bc.Body, jsonStr(bc.Key)+":", jsonStr(alt)+":", 1)
				_, _, ast, _ := e.do(bc.Method, bc.Target, ab)
				ask, _ := skeletons(ast)
				if strings.Join(hsk, "\n") == strings.Join(ask, "\n") {
					ok = true
					break
				}
			}
			if ok {
				bsk = hsk
			}
		}
		if strings.Join(hsk, "\n") != strings.Join(bsk, "\n") {
			rep.Violate(sig+":structure-differs", fmt.Sprintf("benign (%s, HTTP %d): %s\nhostile (HTTP %d): %s", bc.Value, bcode, lastStmt(bst), hcode, lastStmt(hst)), i, hc)
			return
		}
		for k, o := range hout {
			if strings.Contains(o, marker) {
				rep.Violate(sig+":text-outside-literal", "client text outside a quoted literal: "+hst[k].Text, i, hc)
				return
			}
		}
		if argsContain(hst, marker) {
			rep.Inc("bound_parameters_seen")
		}
		if rep.WantSample() && hc.Value != marker {
			rep.Sample(map[string]any{"case": hc, "statement": lastStmt(hst)})
		}
	})
}

func lastStmt(st []fakesql.Stmt) string {
	for i := len(st) - 1; i >= 0; i-- {
		if st[i].Kind == "query" || st[i].Kind == "exec" {
			t := st[i].Text
			if len(t) > 900 {
				t = t[:900] + " …"
			}
			return t
		}
	}
	return "(no statement)"
}
