package main

// C04, part 5 ("decode"): what the read methods of ledgerstore.Store make of the rows the database returns.
//
// The SQL half (triggers, functions) is out of reach without PostgreSQL; what it *returns* is not: a model ledger state
// (transactions with effective dates in the past and in the future, reverted or not, metadata, per-account volumes)
// plays the tables, and a handler answers every statement the real Store sends the way PostgreSQL would: it takes the
// select list of the statement apart (table.* / column / expression AS name / unnamed expression, which PostgreSQL
// calls by its function name or "case"), applies the row conditions this monitor understands (id = .., timestamp <=
// pit) and returns the model's rows under exactly those column names. The values the Store hands back must then be the
// model's: ids, timestamps, postings, metadata, the reverted flag as of the point in time asked for, volumes before and
// after, balances.

import (
	"context"
	"database/sql/driver"
	"encoding/json"
	"fmt"
	"math/big"
	"reflect"
	"regexp"
	"sort"
	"strings"
	"time"

	ledger "github.com/formancehq/ledger/internal"
	"github.com/formancehq/ledger/internal/storage/ledgerstore"
	"github.com/formancehq/ledger/internal/verif/fakesql"
	vc "github.com/formancehq/ledger/internal/verif/vcommon"
	"github.com/formancehq/stack/libs/go-libs/metadata"
)

type decTx struct {
	ID         int64
	TS         time.Time
	Ref        string
	Postings   []ledger.Posting
	Meta       map[string]string
	RevertedAt *time.Time
	PCV, PCEV  ledger.AccountsAssetsVolumes
}

type decAcc struct {
	Addr     string
	Meta     map[string]string
	Vol, Eff ledger.VolumesByAssets
}

type decModel struct {
	Txs  []*decTx
	Accs []*decAcc
	Agg  ledger.VolumesByAssets
	Bal  *big.Int
}

// ---------------------------------------------------------------------------------------------- select list

type selItem struct {
	name string // output column name as PostgreSQL would report it ("" = star, see table)
	star string // table / alias of a "t.*" item
	expr string // source text of the item (tokens joined by a blank)
}

// selectList returns the items of the outermost SELECT of the statement.
func selectList(sql string) []selItem {
	toks := Lex(sql)
	depth := 0
	start, end := -1, -1
	for i, t := range toks {
		if t.Kind == "op" && t.Text == "(" {
			depth++
		}
		if t.Kind == "op" && t.Text == ")" {
			depth--
		}
		if depth != 0 || t.Kind != "ident" {
			continue
		}
		switch strings.ToLower(t.Text) {
		case "select":
			start, end = i+1, -1 // the last top-level SELECT is the main one (the ones before belong to WITH items in parentheses)
		case "from":
			if start >= 0 && end < 0 {
				end = i
			}
		}
	}
	if start < 0 {
		return nil
	}
	if end < 0 {
		end = len(toks)
	}
	toks = toks[start:end]
	// distinct on ( ... )
	if len(toks) > 2 && strings.EqualFold(toks[0].Text, "distinct") {
		toks = toks[1:]
		if len(toks) > 1 && strings.EqualFold(toks[0].Text, "on") {
			d := 0
			for i, t := range toks[1:] {
				if t.Text == "(" {
					d++
				}
				if t.Text == ")" {
					d--
					if d == 0 {
						toks = toks[i+2:]
						break
					}
				}
			}
		}
	}
	var items [][]Tok
	var cur []Tok
	depth = 0
	for _, t := range toks {
		if t.Kind == "op" && t.Text == "(" {
			depth++
		}
		if t.Kind == "op" && t.Text == ")" {
			depth--
		}
		if depth == 0 && t.Kind == "op" && t.Text == "," {
			items = append(items, cur)
			cur = nil
			continue
		}
		cur = append(cur, t)
	}
	if len(cur) > 0 {
		items = append(items, cur)
	}
	var out []selItem
	for _, it := range items {
		var texts []string
		for _, t := range it {
			texts = append(texts, t.Text)
		}
		s := selItem{expr: strings.Join(texts, " ")}
		n := len(it)
		name := func(t Tok) string {
			if t.Kind == "qident" {
				return strings.Trim(t.Text, `"`)
			}
			return strings.ToLower(t.Text)
		}
		switch {
		case n >= 1 && it[n-1].Text == "*":
			if n >= 3 {
				s.star = name(it[n-3])
			} else {
				s.star = "*"
			}
		case n >= 3 && strings.EqualFold(it[n-2].Text, "as"):
			s.name = name(it[n-1])
		case n == 1 || (n == 3 && it[1].Text == "."):
			s.name = name(it[n-1])
		case strings.EqualFold(it[0].Text, "case"):
			s.name = "case"
		case n >= 2 && it[1].Text == "(" && (it[0].Kind == "ident" || it[0].Kind == "qident"):
			s.name = name(it[0])
		default:
			s.name = "?column?"
		}
		out = append(out, s)
	}
	return out
}

var maskRe = regexp.MustCompile(`^case when reverted_at is not null and reverted_at > '([^']+)' then null else reverted_at end$`)
var idCondRe = regexp.MustCompile(`transactions\.id = '?([0-9]+)'?`)
var pitCondRe = regexp.MustCompile(`\(timestamp <= '([^']+)'\)`)
var addrCondRe = regexp.MustCompile(`accounts\.address = '([^']+)'`)

func jsonb(v any) driver.Value {
	b, err := json.Marshal(v)
	if err != nil {
		panic(err)
	}
	return b
}

func (m *decModel) handler(unknown *[]string) fakesql.Handler {
	return func(text string, _ []driver.Value) ([]string, [][]driver.Value, error) {
		items := selectList(text)
		low := strings.ToLower(text)
		switch {
		case strings.Contains(low, `from "transactions"`):
			var rows []*decTx
			for _, t := range m.Txs {
				if mm := idCondRe.FindStringSubmatch(text); mm != nil && mm[1] != fmt.Sprint(t.ID) {
					continue
				}
				if mm := pitCondRe.FindStringSubmatch(text); mm != nil {
					pit, err := time.Parse(time.RFC3339Nano, mm[1])
					if err == nil && t.TS.After(pit) {
						continue
					}
				}
				rows = append(rows, t)
			}
			sort.Slice(rows, func(a, b int) bool { return rows[a].ID > rows[b].ID })
			var cols []string
			var out [][]driver.Value
			for ri, t := range rows {
				var vals []driver.Value
				add := func(c string, v driver.Value) {
					if ri == 0 {
						cols = append(cols, c)
					}
					vals = append(vals, v)
				}
				var rev driver.Value
				if t.RevertedAt != nil {
					rev = *t.RevertedAt
				}
				var ref driver.Value
				if t.Ref != "" {
					ref = t.Ref
				}
				for _, it := range items {
					switch {
					case it.star == "transactions":
						add("seq", int64(t.ID+1))
						add("ledger", "l1")
						add("id", []byte(fmt.Sprint(t.ID)))
						add("timestamp", t.TS)
						add("reference", ref)
						add("reverted_at", rev)
						add("postings", jsonb(t.Postings))
						add("metadata", jsonb(t.Meta))
					case it.name == "metadata":
						add("metadata", jsonb(t.Meta))
					case it.name == "post_commit_volumes":
						add("post_commit_volumes", jsonb(t.PCV))
					case it.name == "post_commit_effective_volumes":
						add("post_commit_effective_volumes", jsonb(t.PCEV))
					case it.name == "reverted_at" || it.name == "case":
						if mm := maskRe.FindStringSubmatch(strings.ToLower(strings.ReplaceAll(it.expr, " as reverted_at", ""))); mm != nil || maskRe.MatchString(normExpr(it.expr)) {
							if mm == nil {
								mm = maskRe.FindStringSubmatch(normExpr(it.expr))
							}
							pit, _ := time.Parse(time.RFC3339Nano, strings.ToUpper(mm[1]))
							var v driver.Value
							if t.RevertedAt != nil && !t.RevertedAt.After(pit) {
								v = *t.RevertedAt
							}
							add(it.name, v)
						} else {
							*unknown = append(*unknown, it.expr)
							add(it.name, nil)
						}
					default:
						*unknown = append(*unknown, it.expr)
						add(it.name, nil)
					}
				}
				out = append(out, vals)
			}
			return cols, out, nil
		case strings.Contains(low, `from "accounts"`):
			var cols []string
			var out [][]driver.Value
			accs := append([]*decAcc{}, m.Accs...)
			sort.Slice(accs, func(a, b int) bool { return accs[a].Addr < accs[b].Addr })
			first := true
			for _, a := range accs {
				if mm := addrCondRe.FindStringSubmatch(text); mm != nil && mm[1] != a.Addr {
					continue
				}
				var vals []driver.Value
				add := func(c string, v driver.Value) {
					if first {
						cols = append(cols, c)
					}
					vals = append(vals, v)
				}
				for _, it := range items {
					switch {
					case it.name == "address":
						add("address", a.Addr)
					case it.name == "metadata":
						add("metadata", jsonb(a.Meta))
					case it.star == "volumes":
						add("volumes", jsonb(a.Vol))
					case it.star == "effective_volumes":
						add("effective_volumes", jsonb(a.Eff))
					default:
						*unknown = append(*unknown, it.expr)
						add(it.name, nil)
					}
				}
				first = false
				out = append(out, vals)
			}
			return cols, out, nil
		case strings.Contains(low, "aggregate_objects(data.aggregated)"):
			return []string{"aggregated"}, [][]driver.Value{{jsonb(m.Agg)}}, nil
		case strings.Contains(low, "get_account_balance("):
			return []string{"balance"}, [][]driver.Value{{[]byte(m.Bal.String())}}, nil
		}
		return nil, nil, nil
	}
}

func normExpr(s string) string {
	s = strings.ToLower(s)
	s = strings.TrimSuffix(s, " as reverted_at")
	return strings.Join(strings.Fields(s), " ")
}

// ---------------------------------------------------------------------------------------------- model

func genDecModel(r *vc.Rand) (*decModel, []time.Time) {
	base := time.Date(2024, 1, 1, 0, 0, 0, 0, time.UTC)
	at := func() time.Time {
		return base.Add(time.Duration(r.Intn(2000)-1000) * 24 * time.Hour).Add(time.Duration(r.Intn(86400_000_000)) * time.Microsecond)
	}
	big64, _ := new(big.Int).SetString("18446744073709551616", 10)
	amount := func() *big.Int {
		switch r.Intn(8) {
		case 0:
			return new(big.Int).Add(big64, big.NewInt(int64(r.Intn(100))))
		case 1:
			return big.NewInt(0)
		}
		return big.NewInt(int64(r.Intn(100000)))
	}
	vols := func() *ledger.Volumes {
		return &ledger.Volumes{Input: amount(), Output: amount()}
	}
	accounts := []string{"world", "alice", "bob", "users:001", "bank-eu:fees", "a_b"}
	assets := []string{"USD", "EUR/2", "COIN"}
	m := &decModel{Agg: ledger.VolumesByAssets{}, Bal: amount()}
	if r.Bool() {
		m.Bal = new(big.Int).Neg(m.Bal)
	}
	var times []time.Time
	n := r.Range(1, 10)
	for i := 0; i < n; i++ {
		t := &decTx{ID: int64(i), TS: at(), Meta: map[string]string{}}
		if r.Chance(1, 3) {
			t.TS = time.Date(2031, time.Month(r.Range(1, 12)), r.Range(1, 28), 0, 0, 0, 0, time.UTC) // a future effective date
		}
		if r.Chance(1, 6) {
			t.ID = int64(i) + 1<<40
		}
		times = append(times, t.TS)
		if r.Chance(1, 3) {
			t.Ref = fmt.Sprintf("ref-%d", i)
		}
		for k := r.Range(1, 4); k > 0; k-- {
			t.Postings = append(t.Postings, ledger.NewPosting(vc.Pick(r, accounts), vc.Pick(r, accounts), vc.Pick(r, assets), amount()))
		}
		for k := r.Intn(3); k > 0; k-- {
			t.Meta[vc.Pick(r, []string{"k", "note", "é", "a b"})] = vc.Pick(r, []string{"", "v", "日本", "{\"x\":1}"})
		}
		if r.Chance(1, 2) { // reverted: at the moment of the revert, which may lie before the original's effective date
			ra := at()
			switch r.Intn(4) {
			case 0:
				ra = t.TS.Add(-time.Duration(r.Range(1, 1000)) * time.Hour)
			case 1:
				ra = t.TS.Add(time.Duration(r.Range(1, 1000)) * time.Hour)
			case 2:
				ra = t.TS
			}
			t.RevertedAt = &ra
			times = append(times, ra)
		}
		t.PCV, t.PCEV = ledger.AccountsAssetsVolumes{}, ledger.AccountsAssetsVolumes{}
		for _, p := range t.Postings {
			for _, a := range []string{p.Source, p.Destination} {
				for _, v := range []ledger.AccountsAssetsVolumes{t.PCV, t.PCEV} {
					if v[a] == nil {
						v[a] = ledger.VolumesByAssets{}
					}
					v[a][p.Asset] = vols()
				}
			}
		}
		m.Txs = append(m.Txs, t)
	}
	for _, a := range accounts[:r.Range(1, len(accounts))] {
		acc := &decAcc{Addr: a, Meta: map[string]string{}, Vol: ledger.VolumesByAssets{}, Eff: ledger.VolumesByAssets{}}
		for k := r.Intn(3); k > 0; k-- {
			acc.Meta[vc.Pick(r, []string{"k", "role", "é"})] = vc.Pick(r, []string{"", "v", "日本"})
		}
		for _, as := range assets[:r.Range(0, len(assets))] {
			acc.Vol[as], acc.Eff[as] = vols(), vols()
		}
		m.Accs = append(m.Accs, acc)
	}
	for _, as := range assets[:r.Range(0, len(assets))] {
		m.Agg[as] = vols()
	}
	return m, times
}

// ---------------------------------------------------------------------------------------------- run

func runC04Decode(cfg *vc.Config, rep *vc.Report) {
	ctx := context.Background()
	cfg.Cases(1500, 100000, func(i int, r *vc.Rand) {
		m, times := genDecModel(r)
		var unknown []string
		db, rec := fakesql.Open()
		defer db.Close()
		rec.Handler = m.handler(&unknown)
		s := ledgerstore.NewStoreForVerif(db, "bucket0", "l1")
		var opt ledgerstore.PITFilterWithVolumes
		pitDesc := "none"
		if r.Chance(2, 3) {
			p := vc.Pick(r, times)
			switch r.Intn(3) {
			case 0:
				p = p.Add(-time.Microsecond)
			case 1:
				p = p.Add(time.Microsecond)
			}
			lt := ledger.Time{Time: p}
			opt.PIT = &lt
			pitDesc = p.Format(time.RFC3339Nano)
		}
		opt.ExpandVolumes, opt.ExpandEffectiveVolumes = r.Bool(), r.Bool()
		desc := map[string]any{"index": i, "pit": pitDesc, "expand_volumes": opt.ExpandVolumes, "expand_effective_volumes": opt.ExpandEffectiveVolumes, "model": m}
		rep.Current(desc)
		rep.Eval()
		viol := func(rule, what string) {
			desc["statements"] = stmtTexts(rec.Snapshot())
			rep.Violate(rule, what, i, desc)
		}
		visible := func(t *decTx) bool { return opt.PIT == nil || !t.TS.After(opt.PIT.Time) }
		wantReverted := func(t *decTx) bool {
			return t.RevertedAt != nil && (opt.PIT == nil || !t.RevertedAt.After(opt.PIT.Time))
		}
		checkTx := func(how string, t *decTx, got *ledger.ExpandedTransaction) {
			rep.Inc("transactions_decoded")
			if got.ID == nil || got.ID.Int64() != t.ID {
				viol(how+":id-differs", fmt.Sprintf("model %d, store %v", t.ID, got.ID))
				return
			}
			if !got.Timestamp.Time.Equal(t.TS) {
				viol(how+":timestamp-differs", fmt.Sprintf("tx %d: model %s, store %s", t.ID, t.TS.Format(time.RFC3339Nano), got.Timestamp.Format(time.RFC3339Nano)))
			}
			if got.Reference != t.Ref {
				viol(how+":reference-differs", fmt.Sprintf("tx %d: model %q, store %q", t.ID, t.Ref, got.Reference))
			}
			if !reflect.DeepEqual(postingsView(got.Postings), postingsView(t.Postings)) {
				viol(how+":postings-differ", fmt.Sprintf("tx %d: model %v, store %v", t.ID, postingsView(t.Postings), postingsView(got.Postings)))
			}
			if !reflect.DeepEqual(map[string]string(got.Metadata), t.Meta) && !(len(got.Metadata) == 0 && len(t.Meta) == 0) {
				viol(how+":metadata-differs", fmt.Sprintf("tx %d: model %v, store %v", t.ID, t.Meta, got.Metadata))
			}
			if got.Reverted != wantReverted(t) {
				ra := "never"
				if t.RevertedAt != nil {
					ra = t.RevertedAt.Format(time.RFC3339Nano)
				}
				rule := "reverted-flag-differs"
				if opt.PIT != nil {
					rule += ":at-point-in-time"
				}
				if t.RevertedAt != nil && t.RevertedAt.Before(t.TS) {
					rule += ":reverted-before-effective-date"
				}
				viol(how+":"+rule, fmt.Sprintf("tx %d (effective %s, reverted at %s) read at pit=%s: the log replayed up to there says reverted=%v, the store says %v",
					t.ID, t.TS.Format(time.RFC3339Nano), ra, pitDesc, wantReverted(t), got.Reverted))
				rep.Inc("reverted_flag_mismatches")
			}
			if wantReverted(t) {
				rep.Inc("reverted_transactions_read")
			}
			if t.RevertedAt != nil && !wantReverted(t) {
				rep.Inc("transactions_read_before_their_revert")
			}
			for _, c := range []struct {
				on        bool
				name      string
				post, pre ledger.AccountsAssetsVolumes
				model     ledger.AccountsAssetsVolumes
			}{{opt.ExpandVolumes, "volumes", got.PostCommitVolumes, got.PreCommitVolumes, t.PCV}, {opt.ExpandEffectiveVolumes, "effective-volumes", got.PostCommitEffectiveVolumes, got.PreCommitEffectiveVolumes, t.PCEV}} {
				if !c.on {
					if len(c.post) != 0 {
						viol(how+":"+c.name+"-not-asked-for", fmt.Sprintf("tx %d: %v", t.ID, c.post))
					}
					continue
				}
				rep.Inc("volume_sets_decoded")
				if volView(c.post) != volView(c.model) {
					viol(how+":post-commit-"+c.name+"-differ", fmt.Sprintf("tx %d: model %s, store %s", t.ID, volView(c.model), volView(c.post)))
					continue
				}
				want := c.model.Copy()
				for _, p := range t.Postings {
					want.AddOutput(p.Source, p.Asset, new(big.Int).Neg(p.Amount))
					want.AddInput(p.Destination, p.Asset, new(big.Int).Neg(p.Amount))
				}
				if volView(c.pre) != volView(want) {
					viol(how+":pre-commit-"+c.name+"-differ", fmt.Sprintf("tx %d: post %s minus postings %v = %s, store %s", t.ID, volView(c.model), postingsView(t.Postings), volView(want), volView(c.pre)))
				}
			}
		}
		// one by one
		for _, t := range m.Txs {
			got, err := s.GetTransactionWithVolumes(ctx, ledgerstore.GetTransactionQuery{PITFilterWithVolumes: opt, ID: big.NewInt(t.ID)})
			if !visible(t) {
				if err == nil {
					viol("get:transaction-after-pit-returned", fmt.Sprintf("tx %d effective %s, pit %s", t.ID, t.TS.Format(time.RFC3339Nano), pitDesc))
				}
				continue
			}
			if err != nil {
				viol("get:error", fmt.Sprintf("tx %d: %v", t.ID, err))
				continue
			}
			checkTx("get", t, got)
		}
		// listed
		cur, err := s.GetTransactions(ctx, ledgerstore.NewGetTransactionsQuery(ledgerstore.NewPaginatedQueryOptions(opt).WithPageSize(100)))
		if err != nil {
			viol("list:error", err.Error())
		} else {
			byID := map[int64]*decTx{}
			nVisible := 0
			for _, t := range m.Txs {
				byID[t.ID] = t
				if visible(t) {
					nVisible++
				}
			}
			if len(cur.Data) != nVisible {
				viol("list:count-differs", fmt.Sprintf("model %d visible transactions, store lists %d", nVisible, len(cur.Data)))
			}
			for k := range cur.Data {
				got := cur.Data[k]
				if got.ID != nil && byID[got.ID.Int64()] != nil {
					checkTx("list", byID[got.ID.Int64()], &got)
				}
			}
		}
		// accounts
		checkAcc := func(how string, a *decAcc, got *ledger.ExpandedAccount) {
			rep.Inc("accounts_decoded")
			if got.Address != a.Addr {
				viol(how+":address-differs", fmt.Sprintf("model %q, store %q", a.Addr, got.Address))
				return
			}
			if !reflect.DeepEqual(map[string]string(got.Metadata), a.Meta) && !(len(got.Metadata) == 0 && len(a.Meta) == 0) {
				viol(how+":account-metadata-differs", fmt.Sprintf("%s: model %v, store %v", a.Addr, a.Meta, got.Metadata))
			}
			if opt.ExpandVolumes && vbaView(got.Volumes) != vbaView(a.Vol) {
				viol(how+":account-volumes-differ", fmt.Sprintf("%s: model %s, store %s", a.Addr, vbaView(a.Vol), vbaView(got.Volumes)))
			}
			if opt.ExpandEffectiveVolumes && vbaView(got.EffectiveVolumes) != vbaView(a.Eff) {
				viol(how+":account-effective-volumes-differ", fmt.Sprintf("%s: model %s, store %s", a.Addr, vbaView(a.Eff), vbaView(got.EffectiveVolumes)))
			}
		}
		for _, a := range m.Accs {
			got, err := s.GetAccountWithVolumes(ctx, ledgerstore.GetAccountQuery{PITFilterWithVolumes: opt, Addr: a.Addr})
			if err != nil {
				viol("get-account:error", fmt.Sprintf("%s: %v", a.Addr, err))
				continue
			}
			checkAcc("get-account", a, got)
		}
		if lst, err := s.GetAccountsWithVolumes(ctx, ledgerstore.NewGetAccountsQuery(ledgerstore.NewPaginatedQueryOptions(opt).WithPageSize(100))); err != nil {
			viol("list-accounts:error", err.Error())
		} else {
			if len(lst.Data) != len(m.Accs) {
				viol("list-accounts:count-differs", fmt.Sprintf("model %d, store %d", len(m.Accs), len(lst.Data)))
			}
			for k := range lst.Data {
				for _, a := range m.Accs {
					if a.Addr == lst.Data[k].Address {
						checkAcc("list-accounts", a, &lst.Data[k])
					}
				}
			}
		}
		// aggregated balances and a single balance
		if agg, err := s.GetAggregatedBalances(ctx, ledgerstore.NewGetAggregatedBalancesQuery(ledgerstore.NewPaginatedQueryOptions(opt.PITFilter))); err != nil {
			viol("aggregated:error", err.Error())
		} else {
			rep.Inc("aggregates_decoded")
			want := map[string]string{}
			for as, v := range m.Agg {
				want[as] = new(big.Int).Sub(v.Input, v.Output).String()
			}
			got := map[string]string{}
			for as, v := range agg {
				got[as] = v.String()
			}
			if !reflect.DeepEqual(want, got) {
				viol("aggregated:balances-differ", fmt.Sprintf("model %v, store %v", want, got))
			}
		}
		if b, err := s.GetBalance(ctx, "alice", "USD"); err != nil {
			viol("balance:error", err.Error())
		} else if b.Cmp(m.Bal) != 0 {
			viol("balance:differs", fmt.Sprintf("model %s, store %s", m.Bal, b))
		}
		if len(unknown) > 0 {
			rep.Inconc(fmt.Sprintf("case %d: select item(s) this monitor has no value for: %v", i, uniqStrings(unknown)))
		}
		rep.DistinctCase(vc.Hash64(fmt.Sprint(i), pitDesc, fmt.Sprint(len(m.Txs))))
		if rep.WantSample() {
			rep.Sample(map[string]any{"transactions": len(m.Txs), "accounts": len(m.Accs), "pit": pitDesc, "statements": stmtTexts(rec.Snapshot())[:2]})
		}
	})
}

func stmtTexts(st []fakesql.Stmt) []string {
	var out []string
	for _, s := range st {
		out = append(out, s.Text)
	}
	return out
}

func postingsView(ps []ledger.Posting) []string {
	var out []string
	for _, p := range ps {
		out = append(out, fmt.Sprintf("%s>%s %s %s", p.Source, p.Destination, p.Amount, p.Asset))
	}
	return out
}

func vbaView(v ledger.VolumesByAssets) string {
	var ks []string
	for k := range v {
		ks = append(ks, k)
	}
	sort.Strings(ks)
	var sb strings.Builder
	for _, k := range ks {
		in, out := "0", "0"
		if v[k] != nil && v[k].Input != nil {
			in = v[k].Input.String()
		}
		if v[k] != nil && v[k].Output != nil {
			out = v[k].Output.String()
		}
		fmt.Fprintf(&sb, "%s:%s/%s ", k, in, out)
	}
	return sb.String()
}

func volView(v ledger.AccountsAssetsVolumes) string {
	var ks []string
	for k := range v {
		ks = append(ks, k)
	}
	sort.Strings(ks)
	var sb strings.Builder
	for _, k := range ks {
		fmt.Fprintf(&sb, "%s{%s} ", k, vbaView(v[k]))
	}
	return sb.String()
}

var _ = metadata.Metadata{}
