package main

import vc "github.com/formancehq/ledger/internal/verif/vcommon"

func runC04(cfg *vc.Config, rep *vc.Report) {}
