package main
