package main

import (
	"context"
	"encoding/json"
	"fmt"
	"regexp"
	"strconv"
	"strings"

	"github.com/formancehq/ledger/internal/storage/ledgerstore"
	"github.com/formancehq/ledger/internal/verif/fakesql"
	vc "github.com/formancehq/ledger/internal/verif/vcommon"
	"github.com/formancehq/stack/libs/go-libs/query"
)

// ------------------------------------------------------------------------------------------------
// C04 (Go half), part 2: the address pattern of a list / count / aggregate filter is translated into a predicate with
// the pattern's meaning. The recording driver captures the statement; the few predicate forms the builders emit
// (equality on the address column, jsonb_array_length, `@@ jsonpath` segment tests, `@>` containment on sources /
// destinations / *_arrays) are evaluated by a small evaluator over candidate rows and compared with the reference
// meaning of the pattern: no empty segment -> the address itself; otherwise the same number of segments and every
// non-empty segment equal.

type candidate struct {
	addr       string   // accounts / moves
	srcs, dsts []string // transactions
}

func explode(a string) map[string]any {
	m := map[string]any{}
	parts := strings.Split(a, ":")
	for i, p := range parts {
		m[strconv.Itoa(i)] = p
	}
	m[strconv.Itoa(len(parts))] = nil
	return m
}

func refMatch(pattern, addr string) bool {
	ps := strings.Split(pattern, ":")
	wild := false
	for _, p := range ps {
		if p == "" {
			wild = true
		}
	}
	if !wild {
		return pattern == addr
	}
	as := strings.Split(addr, ":")
	if len(as) != len(ps) {
		return false
	}
	for i, p := range ps {
		if p != "" && p != as[i] {
			return false
		}
	}
	return true
}

type pev struct {
	toks []Tok
	pos  int
	c    candidate
	err  error
}

func (p *pev) peek() Tok {
	if p.pos < len(p.toks) {
		return p.toks[p.pos]
	}
	return Tok{Kind: "eof"}
}
func (p *pev) next() Tok { t := p.peek(); p.pos++; return t }
func (p *pev) fail(f string, a ...any) bool {
	if p.err == nil {
		p.err = fmt.Errorf(f, a...)
	}
	return false
}

func (p *pev) expr() bool {
	v := p.term()
	for {
		t := p.peek()
		if t.Kind == "ident" && (t.Text == "and" || t.Text == "or") {
			p.next()
			r := p.term()
			if t.Text == "and" {
				v = v && r
			} else {
				v = v || r
			}
			continue
		}
		return v
	}
}

var reJsonPath = regexp.MustCompile(`^\$\[(\d+)\] == (".*")$`)

// column reads `a . b . c` or `a` and returns the last identifier
func (p *pev) column() string {
	name := unq(p.next().Text)
	for p.peek().Text == "." {
		p.next()
		name = unq(p.next().Text)
	}
	return name
}

func (p *pev) term() bool {
	t := p.peek()
	if t.Kind == "op" && t.Text == "(" {
		p.next()
		v := p.expr()
		if p.next().Text != ")" {
			return p.fail("missing )")
		}
		return v
	}
	if t.Kind == "ident" && t.Text == "not" {
		p.next()
		return !p.term()
	}
	if t.Kind == "ident" && t.Text == "jsonb_array_length" {
		p.next()
		if p.next().Text != "(" {
			return p.fail("jsonb_array_length(")
		}
		col := p.column()
		if p.next().Text != ")" || p.next().Text != "=" {
			return p.fail("jsonb_array_length(...) =")
		}
		n, _ := strconv.Atoi(p.next().Text)
		if !strings.HasSuffix(col, "address_array") {
			return p.fail("array length of %s", col)
		}
		return len(strings.Split(p.c.addr, ":")) == n
	}
	if t.Kind != "ident" && t.Kind != "qident" {
		return p.fail("unexpected token %q", t.Text)
	}
	col := p.column()
	op := p.next().Text
	switch op {
	case "=":
		v := p.next()
		if v.Kind != "str" {
			return p.fail("= non-literal")
		}
		if col != "address" && col != "account_address" {
			return p.fail("equality on %s", col)
		}
		return p.c.addr == v.Val
	case "@@":
		// ( 'jsonpath' ) :: jsonpath
		if p.next().Text != "(" {
			return p.fail("@@ (")
		}
		v := p.next()
		if p.next().Text != ")" || p.next().Text != "::" || p.next().Text != "jsonpath" {
			return p.fail("@@ (...)::jsonpath")
		}
		m := reJsonPath.FindStringSubmatch(v.Val)
		if m == nil {
			return p.fail("jsonpath %q", v.Val)
		}
		i, _ := strconv.Atoi(m[1])
		var seg string
		if err := json.Unmarshal([]byte(m[2]), &seg); err != nil {
			return p.fail("jsonpath string %s", m[2])
		}
		parts := strings.Split(p.c.addr, ":")
		return i < len(parts) && parts[i] == seg
	case "@>":
		v := p.next()
		if v.Kind != "str" {
			return p.fail("@> non-literal")
		}
		set := p.c.srcs
		if strings.HasPrefix(col, "destinations") {
			set = p.c.dsts
		} else if !strings.HasPrefix(col, "sources") {
			return p.fail("containment on %s", col)
		}
		if strings.HasSuffix(col, "_arrays") {
			var pats []map[string]any
			if err := json.Unmarshal([]byte(v.Val), &pats); err != nil {
				return p.fail("arrays literal %q", v.Val)
			}
			for _, pat := range pats { // every pattern object must be contained in some element
				found := false
				for _, a := range set {
					e := explode(a)
					ok := true
					for k, want := range pat {
						got, has := e[k]
						if !has || fmt.Sprint(got) != fmt.Sprint(want) || (got == nil) != (want == nil) {
							ok = false
						}
					}
					if ok {
						found = true
					}
				}
				if !found {
					return false
				}
			}
			return true
		}
		var want []string
		if err := json.Unmarshal([]byte(v.Val), &want); err != nil {
			return p.fail("array literal %q", v.Val)
		}
		for _, w := range want {
			found := false
			for _, a := range set {
				if a == w {
					found = true
				}
			}
			if !found {
				return false
			}
		}
		return true
	}
	return p.fail("operator %q", op)
}

// filterGroups: the WHERE conjunct groups (direct non-select children of select blocks) that talk about addresses.
func filterGroups(g *group, out *[][]Tok) {
	var flat func(x *group) []Tok
	flat = func(x *group) []Tok {
		var ts []Tok
		for _, t := range x.toks {
			if t.Kind == "group" {
				var idx int
				fmt.Sscan(t.Val, &idx)
				ts = append(ts, Tok{Kind: "op", Text: "("})
				ts = append(ts, flat(x.subs[idx])...)
				ts = append(ts, Tok{Kind: "op", Text: ")"})
			} else {
				ts = append(ts, t)
			}
		}
		return ts
	}
	for i, t := range g.toks {
		if t.Kind != "group" {
			continue
		}
		var idx int
		fmt.Sscan(t.Val, &idx)
		sub := g.subs[idx]
		if sub.isSelect {
			filterGroups(sub, out)
			continue
		}
		// a conjunct of WHERE: preceded by `where` or `and`
		if i > 0 && g.isSelect && g.toks[i-1].Kind == "ident" && (g.toks[i-1].Text == "where" || g.toks[i-1].Text == "and") {
			ts := flat(sub)
			txt := ""
			for _, x := range ts {
				txt += x.Text + " "
			}
			if strings.Contains(txt, "address") || strings.Contains(txt, "sources") || strings.Contains(txt, "destinations") {
				if !strings.Contains(txt, "ledger =") && !strings.Contains(txt, "accounts_seq") {
					*out = append(*out, ts)
				}
			}
			continue
		}
		// look inside (joins, CTE bodies)
		filterGroups(sub, out)
	}
}

var addrSegs = []string{"", "a", "b", "users", "1", "main"}

func genPattern(r *vc.Rand) string {
	n := r.Range(1, 4)
	ps := make([]string, n)
	for i := range ps {
		ps[i] = vc.Pick(r, addrSegs)
		if r.Chance(1, 3) {
			ps[i] = ""
		}
	}
	p := strings.Join(ps, ":")
	if p == "" {
		return "a"
	}
	return p
}

var addrCandidates = []string{"a", "b", "1", "main", "users", "a:b", "b:a", "a:1", "1:a", "users:1", "users:1:main", "users:a:main", "a:b:main", "main:1:a", "a:a", "a:a:a", "users:1:main:b", "b:1:main:a", "world"}

func runC04Address(cfg *vc.Config, rep *vc.Report, n int) {
	ctx := context.Background()
	db, rec := fakesql.Open()
	s := ledgerstore.NewStoreForVerif(db, "bucket0", "ledgera")
	for k := 0; k < n; k++ {
		r := cfg.CaseRand(1000000 + k)
		pattern := genPattern(r)
		kind := r.Intn(6)
		var method, key string
		rec.Reset()
		opts := ledgerstore.NewPaginatedQueryOptions(ledgerstore.PITFilterWithVolumes{})
		_, _ = vc.Guard(func() {
			switch kind {
			case 0:
				method, key = "GetAccountsWithVolumes", "address"
				_, _ = s.GetAccountsWithVolumes(ctx, ledgerstore.NewGetAccountsQuery(opts.WithQueryBuilder(query.Match(key, pattern))))
			case 1:
				method, key = "CountAccounts", "address"
				_, _ = s.CountAccounts(ctx, ledgerstore.NewGetAccountsQuery(opts.WithQueryBuilder(query.Match(key, pattern))))
			case 2:
				method, key = "GetAggregatedBalances", "address"
				_, _ = s.GetAggregatedBalances(ctx, ledgerstore.NewGetAggregatedBalancesQuery(ledgerstore.NewPaginatedQueryOptions(ledgerstore.PITFilter{}).WithQueryBuilder(query.Match(key, pattern))))
			default:
				key = []string{"account", "source", "destination"}[kind-3]
				method = "GetTransactions"
				if r.Bool() {
					method = "CountTransactions"
					_, _ = s.CountTransactions(ctx, ledgerstore.NewGetTransactionsQuery(opts.WithQueryBuilder(query.Match(key, pattern))))
				} else {
					_, _ = s.GetTransactions(ctx, ledgerstore.NewGetTransactionsQuery(opts.WithQueryBuilder(query.Match(key, pattern))))
				}
			}
		})
		rep.Eval()
		rep.Inc("address_patterns")
		call := map[string]any{"method": method, "key": key, "pattern": pattern}
		var stmt string
		for _, st := range rec.Snapshot() {
			if st.Kind == "query" {
				stmt = st.Text
			}
		}
		if stmt == "" {
			rep.Inc("address_no_statement")
			continue
		}
		var groups [][]Tok
		filterGroups(parseGroups(Lex(stmt)), &groups)
		if len(groups) != 1 {
			rep.Violate("address-filter:"+method+":no-recognisable-predicate", fmt.Sprintf("%d address predicates found in: %s", len(groups), stmt), -1, call)
			continue
		}
		bad := false
		for _, a := range addrCandidates {
			var cands []candidate
			switch key {
			case "address":
				cands = []candidate{{addr: a}}
			case "account":
				cands = []candidate{{srcs: []string{a, "zz"}, dsts: []string{"yy"}}, {srcs: []string{"zz"}, dsts: []string{a}}, {srcs: []string{"zz"}, dsts: []string{"yy"}}}
			case "source":
				cands = []candidate{{srcs: []string{a}, dsts: []string{"yy"}}, {srcs: []string{"zz"}, dsts: []string{a}}}
			case "destination":
				cands = []candidate{{srcs: []string{"zz"}, dsts: []string{a, "yy"}}, {srcs: []string{a}, dsts: []string{"yy"}}}
			}
			for _, c := range cands {
				want := false
				switch key {
				case "address":
					want = refMatch(pattern, c.addr)
				case "account":
					want = anyMatch(pattern, c.srcs) || anyMatch(pattern, c.dsts)
				case "source":
					want = anyMatch(pattern, c.srcs)
				case "destination":
					want = anyMatch(pattern, c.dsts)
				}
				pe := &pev{toks: groups[0], c: c}
				got := pe.expr()
				if pe.err != nil || pe.pos != len(pe.toks) {
					if !bad {
						rep.Violate("address-filter:"+method+":predicate-not-understood", fmt.Sprintf("%v in: %s", pe.err, stmt), -1, call)
					}
					bad = true
					break
				}
				rep.Inc("address_rows_evaluated")
				if got != want && !bad {
					bad = true
					rep.Violate("address-filter:"+key+":pattern-meaning-differs", fmt.Sprintf("pattern %q on row %+v: the statement selects=%v, the pattern means %v; statement: %s", pattern, c, got, want, stmt), -1, call)
				}
			}
		}
		if strings.Contains(pattern, ":") && strings.Contains(":"+pattern+":", "::") {
			rep.Inc("address_patterns_with_wildcard")
			ps := strings.Split(pattern, ":")
			if ps[len(ps)-1] != "" {
				rep.Inc("address_patterns_wildcard_not_last")
			}
		}
		rep.DistinctCase(vc.Hash64("addr", method, key, pattern))
	}
}

func anyMatch(p string, as []string) bool {
	for _, a := range as {
		if refMatch(p, a) {
			return true
		}
	}
	return false
}
