package main

// C04, part 7: the boolean structure of a filter. Random $and / $or / $not trees over simple leaves (reference = 'rK' on
// transactions, address = 'aK' on accounts and aggregated balances) go through the real list / count / aggregate
// methods; the WHERE clause of the recorded statement is evaluated over candidate rows with SQL's operator precedence
// (NOT binds tighter than AND, AND tighter than OR) and must select exactly the rows the filter tree selects.

import (
	"context"
	"fmt"
	"strings"

	"github.com/formancehq/ledger/internal/storage/ledgerstore"
	"github.com/formancehq/ledger/internal/verif/fakesql"
	vc "github.com/formancehq/ledger/internal/verif/vcommon"
	"github.com/formancehq/stack/libs/go-libs/query"
)

type bnode struct {
	op   string // "leaf", "and", "or", "not"
	val  string
	kids []*bnode
}

func genBool(r *vc.Rand, depth int, vals []string) *bnode {
	if depth >= 3 || r.Chance(1, 3) {
		return &bnode{op: "leaf", val: vc.Pick(r, vals)}
	}
	switch r.Intn(3) {
	case 0:
		return &bnode{op: "not", kids: []*bnode{genBool(r, depth+1, vals)}}
	case 1:
		n := &bnode{op: "and"}
		for k := r.Range(2, 3); k > 0; k-- {
			n.kids = append(n.kids, genBool(r, depth+1, vals))
		}
		return n
	}
	n := &bnode{op: "or"}
	for k := r.Range(2, 3); k > 0; k-- {
		n.kids = append(n.kids, genBool(r, depth+1, vals))
	}
	return n
}

func (n *bnode) builder(key string) query.Builder {
	switch n.op {
	case "leaf":
		return query.Match(key, n.val)
	case "not":
		return query.Not(n.kids[0].builder(key))
	}
	var ks []query.Builder
	for _, k := range n.kids {
		ks = append(ks, k.builder(key))
	}
	if n.op == "and" {
		return query.And(ks...)
	}
	return query.Or(ks...)
}

func (n *bnode) eval(v string) bool {
	switch n.op {
	case "leaf":
		return n.val == v
	case "not":
		return !n.kids[0].eval(v)
	case "and":
		for _, k := range n.kids {
			if !k.eval(v) {
				return false
			}
		}
		return true
	}
	for _, k := range n.kids {
		if k.eval(v) {
			return true
		}
	}
	return false
}

func (n *bnode) String() string {
	switch n.op {
	case "leaf":
		return n.val
	case "not":
		return "not(" + n.kids[0].String() + ")"
	}
	var ks []string
	for _, k := range n.kids {
		ks = append(ks, k.String())
	}
	return n.op + "(" + strings.Join(ks, ",") + ")"
}

// sqlBool evaluates a WHERE clause (tokens) with SQL precedence. Leaves: <column> = '<literal>'; the columns it knows are
// the ledger column (true for this store's ledger) and the filtered column (compared with the candidate's value).
type sqlBool struct {
	toks   []Tok
	pos    int
	ledger string
	cols   map[string]bool
	val    string
	err    error
}

func (p *sqlBool) peek() Tok {
	if p.pos < len(p.toks) {
		return p.toks[p.pos]
	}
	return Tok{Kind: "eof"}
}
func (p *sqlBool) isKw(k string) bool {
	t := p.peek()
	return t.Kind == "ident" && strings.EqualFold(t.Text, k)
}
func (p *sqlBool) or() bool {
	v := p.and()
	for p.isKw("or") {
		p.pos++
		r := p.and()
		v = v || r
	}
	return v
}
func (p *sqlBool) and() bool {
	v := p.not()
	for p.isKw("and") {
		p.pos++
		r := p.not()
		v = v && r
	}
	return v
}
func (p *sqlBool) not() bool {
	if p.isKw("not") {
		p.pos++
		return !p.not()
	}
	return p.atom()
}
func (p *sqlBool) atom() bool {
	t := p.peek()
	if t.Kind == "op" && t.Text == "(" {
		p.pos++
		v := p.or()
		if p.peek().Text != ")" {
			p.err = fmt.Errorf("missing ) at token %d", p.pos)
			return false
		}
		p.pos++
		return v
	}
	// column [. column]* = literal
	col := ""
	for {
		t := p.peek()
		if t.Kind != "ident" && t.Kind != "qident" {
			p.err = fmt.Errorf("unexpected token %q", t.Text)
			return false
		}
		col = strings.Trim(t.Text, `"`)
		p.pos++
		if p.peek().Text == "." {
			p.pos++
			continue
		}
		break
	}
	if p.peek().Text != "=" {
		p.err = fmt.Errorf("unsupported operator %q after %s", p.peek().Text, col)
		return false
	}
	p.pos++
	lit := p.peek()
	if lit.Kind != "str" {
		p.err = fmt.Errorf("unsupported right-hand side %q", lit.Text)
		return false
	}
	p.pos++
	switch {
	case col == "ledger":
		return lit.Val == p.ledger
	case p.cols[col]:
		return lit.Val == p.val
	}
	p.err = fmt.Errorf("unknown column %s", col)
	return false
}

// whereTokens: the tokens of the outermost WHERE clause (up to ORDER BY / GROUP BY / LIMIT at depth 0); for statements
// with CTEs the WHERE of the CTE that carries the filter is the first one that mentions the filtered column.
func whereClauses(sql string) [][]Tok {
	toks := Lex(sql)
	var out [][]Tok
	for i := 0; i < len(toks); i++ {
		if toks[i].Kind == "ident" && strings.EqualFold(toks[i].Text, "where") {
			depth := 0
			var cur []Tok
			for j := i + 1; j < len(toks); j++ {
				t := toks[j]
				if t.Kind == "op" && t.Text == "(" {
					depth++
				}
				if t.Kind == "op" && t.Text == ")" {
					depth--
					if depth < 0 {
						break
					}
				}
				if depth == 0 && t.Kind == "ident" {
					kw := strings.ToLower(t.Text)
					if kw == "order" || kw == "group" || kw == "limit" || kw == "offset" {
						break
					}
				}
				cur = append(cur, t)
			}
			out = append(out, cur)
		}
	}
	return out
}

func runC04Bool(cfg *vc.Config, rep *vc.Report, n int) {
	ctx := context.Background()
	db, rec := fakesql.Open()
	defer db.Close()
	s := ledgerstore.NewStoreForVerif(db, "bucket0", "l1")
	for k := 0; k < n; k++ {
		r := cfg.CaseRand(2000000 + k)
		kind := r.Intn(5)
		key, vals, cols := "reference", []string{"r1", "r2", "r3"}, map[string]bool{"reference": true}
		if kind >= 2 {
			key, vals, cols = "address", []string{"a1", "a2", "a3"}, map[string]bool{"address": true, "account_address": true}
		}
		tree := genBool(r, 0, vals)
		qb := tree.builder(key)
		opts := ledgerstore.NewPaginatedQueryOptions(ledgerstore.PITFilterWithVolumes{})
		method := ""
		rec.Reset()
		pv, _ := vc.Guard(func() {
			switch kind {
			case 0:
				method = "GetTransactions"
				_, _ = s.GetTransactions(ctx, ledgerstore.NewGetTransactionsQuery(opts.WithQueryBuilder(qb)))
			case 1:
				method = "CountTransactions"
				_, _ = s.CountTransactions(ctx, ledgerstore.NewGetTransactionsQuery(opts.WithQueryBuilder(qb)))
			case 2:
				method = "GetAccountsWithVolumes"
				_, _ = s.GetAccountsWithVolumes(ctx, ledgerstore.NewGetAccountsQuery(opts.WithQueryBuilder(qb)))
			case 3:
				method = "CountAccounts"
				_, _ = s.CountAccounts(ctx, ledgerstore.NewGetAccountsQuery(opts.WithQueryBuilder(qb)))
			default:
				method = "GetAggregatedBalances"
				_, _ = s.GetAggregatedBalances(ctx, ledgerstore.NewGetAggregatedBalancesQuery(ledgerstore.NewPaginatedQueryOptions(ledgerstore.PITFilter{}).WithQueryBuilder(qb)))
			}
		})
		st := rec.Snapshot()
		if pv != nil || len(st) == 0 {
			continue
		}
		sql := st[len(st)-1].Text
		var where []Tok
		for _, w := range whereClauses(sql) {
			for _, t := range w {
				if cols[strings.Trim(t.Text, `"`)] {
					where = w
				}
			}
			if where != nil {
				break
			}
		}
		if where == nil {
			continue
		}
		rep.Eval()
		rep.Inc("boolean_filters")
		if tree.op != "leaf" {
			rep.Inc("boolean_filters_compound")
		}
		desc := map[string]any{"method": method, "key": key, "filter": tree.String(), "statement": sql}
		for _, v := range append(append([]string{}, vals...), "other") {
			p := &sqlBool{toks: where, ledger: "l1", cols: cols, val: v}
			got := p.or()
			if p.err == nil && p.pos != len(p.toks) {
				p.err = fmt.Errorf("trailing tokens from %d", p.pos)
			}
			if p.err != nil {
				rep.Inc("boolean_filters_not_evaluated")
				break
			}
			if want := tree.eval(v); got != want {
				rep.Violate("filter-structure:"+method, fmt.Sprintf("filter %s on %s: a row with %s = %q is %s by the statement's WHERE clause, the filter %s it",
					tree.String(), key, key, v, map[bool]string{true: "selected", false: "left out"}[got], map[bool]string{true: "selects", false: "leaves out"}[want]), -1, desc)
				break
			}
		}
	}
}
