package main

// C04, part 6: the comparison a filter asks for is the comparison the statement makes. For every filter key that takes a
// comparison operator, the same request is sent with each operator; the statements may differ in exactly one token - the
// comparison operator - and that token must be the SQL spelling of the operator asked for. (An operator that is ignored
// makes a "balance >= 100" listing report the accounts whose balance is below 100.)

import (
	"context"
	"fmt"

	"github.com/formancehq/ledger/internal/storage/ledgerstore"
	"github.com/formancehq/ledger/internal/verif/fakesql"
	vc "github.com/formancehq/ledger/internal/verif/vcommon"
	"github.com/formancehq/stack/libs/go-libs/query"
)

func runC04Operators(rep *vc.Report) {
	ctx := context.Background()
	db, rec := fakesql.Open()
	defer db.Close()
	s := ledgerstore.NewStoreForVerif(db, "bucket0", "l1")
	sqlOp := map[string]string{"$match": "=", "$lt": "<", "$lte": "<=", "$gt": ">", "$gte": ">="}
	mk := map[string]func(string, any) query.Builder{
		"$match": func(k string, v any) query.Builder { return query.Match(k, v) },
		"$lt":    func(k string, v any) query.Builder { return query.Lt(k, v) },
		"$lte":   func(k string, v any) query.Builder { return query.Lte(k, v) },
		"$gt":    func(k string, v any) query.Builder { return query.Gt(k, v) },
		"$gte":   func(k string, v any) query.Builder { return query.Gte(k, v) },
	}
	type target struct {
		method string
		key    string
		value  any
		call   func(qb query.Builder)
	}
	acc := func(qb query.Builder) ledgerstore.GetAccountsQuery {
		return ledgerstore.NewGetAccountsQuery(ledgerstore.NewPaginatedQueryOptions(ledgerstore.PITFilterWithVolumes{}).WithQueryBuilder(qb))
	}
	tx := func(qb query.Builder) ledgerstore.GetTransactionsQuery {
		return ledgerstore.NewGetTransactionsQuery(ledgerstore.NewPaginatedQueryOptions(ledgerstore.PITFilterWithVolumes{}).WithQueryBuilder(qb))
	}
	var targets []target
	for _, k := range []string{"balance", "balance[USD]", "balance[EUR/2]"} {
		k := k
		targets = append(targets,
			target{"GetAccountsWithVolumes", k, 100, func(qb query.Builder) { _, _ = s.GetAccountsWithVolumes(ctx, acc(qb)) }},
			target{"CountAccounts", k, 100, func(qb query.Builder) { _, _ = s.CountAccounts(ctx, acc(qb)) }})
	}
	for _, kv := range [][2]string{{"reference", "r1"}, {"timestamp", "2023-01-01T00:00:00Z"}} {
		kv := kv
		targets = append(targets,
			target{"GetTransactions", kv[0], kv[1], func(qb query.Builder) { _, _ = s.GetTransactions(ctx, tx(qb)) }},
			target{"CountTransactions", kv[0], kv[1], func(qb query.Builder) { _, _ = s.CountTransactions(ctx, tx(qb)) }})
	}
	targets = append(targets, target{"GetLogs", "date", "2023-01-01T00:00:00Z", func(qb query.Builder) {
		_, _ = s.GetLogs(ctx, ledgerstore.NewGetLogsQuery(ledgerstore.NewPaginatedQueryOptions[any](nil).WithQueryBuilder(qb)))
	}})
	ops := []string{"$match", "$lt", "$lte", "$gt", "$gte"}
	for _, t := range targets {
		stmts := map[string][]Tok{}
		for _, op := range ops {
			rec.Reset()
			pv, _ := vc.Guard(func() { t.call(mk[op](t.key, t.value)) })
			st := rec.Snapshot()
			if pv != nil || len(st) == 0 {
				continue // the operator is refused for this key (no statement): nothing is reported
			}
			stmts[op] = Lex(st[len(st)-1].Text)
		}
		base, ok := stmts["$lt"]
		if !ok {
			continue
		}
		for _, op := range ops {
			toks, ok := stmts[op]
			if !ok {
				continue
			}
			rep.Eval()
			rep.Inc("filter_operator_pairs")
			desc := map[string]any{"method": t.method, "key": t.key, "operator": op, "statement": joinToks(toks), "statement_for_$lt": joinToks(base)}
			var diff [][2]string
			if len(toks) != len(base) {
				rep.Violate("filter-operator:"+t.key+":statement-shape-differs", fmt.Sprintf("%s with %s on %s: the statement differs from the one for $lt in more than the operator", t.method, op, t.key), -1, desc)
				continue
			}
			for i := range toks {
				if toks[i].Text != base[i].Text {
					diff = append(diff, [2]string{base[i].Text, toks[i].Text})
				}
			}
			switch {
			case op == "$lt":
			case len(diff) == 0:
				rep.Violate("filter-operator-ignored:"+t.key, fmt.Sprintf("%s: the statement for %s %s is the statement for $lt: the comparison asked for is not made", t.method, t.key, op), -1, desc)
			case len(diff) != 1 || diff[0][0] != "<" || diff[0][1] != sqlOp[op]:
				rep.Violate("filter-operator-wrong:"+t.key, fmt.Sprintf("%s: %s %s compares with %v (expected '<' to become %q only)", t.method, t.key, op, diff, sqlOp[op]), -1, desc)
			}
		}
	}
}

func joinToks(ts []Tok) string {
	s := ""
	for _, t := range ts {
		s += t.Text + " "
	}
	return s
}
