package main

import (
	"context"
	"fmt"
	"math/big"
	"time"

	ledger "github.com/formancehq/ledger/internal"
	"github.com/formancehq/ledger/internal/storage/ledgerstore"
	"github.com/formancehq/ledger/internal/verif/fakesql"
)

func probeStatements() {
	db, rec := fakesql.Open()
	s := ledgerstore.NewStoreForVerif(db, "bucket0", "l1")
	ctx := context.Background()
	pit := ledger.Time{Time: time.Date(2023, 6, 1, 0, 0, 0, 0, time.UTC)}
	for _, o := range []ledgerstore.PITFilterWithVolumes{{}, {ExpandVolumes: true, ExpandEffectiveVolumes: true}, {PITFilter: ledgerstore.PITFilter{PIT: &pit}, ExpandVolumes: true}} {
		rec.Reset()
		_, _ = s.GetTransactionWithVolumes(ctx, ledgerstore.GetTransactionQuery{PITFilterWithVolumes: o, ID: big.NewInt(3)})
		_, _ = s.GetTransactions(ctx, ledgerstore.NewGetTransactionsQuery(ledgerstore.NewPaginatedQueryOptions(o)))
		_, _ = s.GetAccountWithVolumes(ctx, ledgerstore.GetAccountQuery{PITFilterWithVolumes: o, Addr: "alice"})
		_, _ = s.GetAccountsWithVolumes(ctx, ledgerstore.NewGetAccountsQuery(ledgerstore.NewPaginatedQueryOptions(o)))
		_, _ = s.GetAggregatedBalances(ctx, ledgerstore.NewGetAggregatedBalancesQuery(ledgerstore.NewPaginatedQueryOptions(o.PITFilter)))
		_, _ = s.GetBalance(ctx, "alice", "USD")
		for _, st := range rec.Snapshot() {
			fmt.Println("SQL:", st.Text)
		}
		fmt.Println("----")
	}
}
