// logmon: C13 — every log entry can be read back (stored JSON form, store row form) and re-verified.
package main

import (
	"regexp"
	"bytes"
	"context"
	"crypto/sha256"
	"database/sql/driver"
	"encoding/json"
	"fmt"
	"math/big"
	"os"
	"runtime/debug"
	"sort"
	"strings"
	"time"

	ledger "github.com/formancehq/ledger/internal"
	"github.com/formancehq/ledger/internal/storage/ledgerstore"
	"github.com/formancehq/ledger/internal/verif/fakesql"
	vc "github.com/formancehq/ledger/internal/verif/vcommon"
	"github.com/formancehq/stack/libs/go-libs/bun/bunpaginate"
	"github.com/formancehq/stack/libs/go-libs/metadata"
)

func main() {
	cfg := vc.ParseFlags()
	rep := vc.NewReport(cfg)
	if cfg.Prop != "C13" {
		fmt.Fprintln(os.Stderr, "logmon: unknown property", cfg.Prop)
		os.Exit(3)
	}
	runC13(cfg, rep)
	rep.Write(true)
}

var strs = []string{"", "a", "hello world", "été à Zürich", "日本語", "quote\"back\\slash", "<b>&amp;</b>", "line\nbreak\ttab", "  ", "null", "{\"a\":1}", "\u2028sep\u2029 \ufffd \u0000nul \u001f", strings.Repeat("x", 300), "com.formance.spec/state/reverts", "key with spaces", "0", "-1", "1e400"}

func genMeta(r *vc.Rand) metadata.Metadata {
	switch r.Intn(8) {
	case 0:
		return nil
	case 1:
		return metadata.Metadata{}
	}
	m := metadata.Metadata{}
	for k := r.Range(1, 4); k > 0; k-- {
		m[vc.Pick(r, strs)] = vc.Pick(r, strs)
	}
	return m
}

var bigAmts = []string{"0", "1", "100", "9223372036854775807", "9223372036854775808", "18446744073709551615", "18446744073709551616", "1000000000000000000000000000000", "340282366920938463463374607431768211456"}

func genAmount(r *vc.Rand) *big.Int {
	if r.Chance(1, 3) {
		n, _ := new(big.Int).SetString(vc.Pick(r, bigAmts), 10)
		return n
	}
	return big.NewInt(int64(r.Intn(100000)))
}

var accts = []string{"world", "alice", "users:001", "bank-eu:fees", "a:b:c:d", "_x", "0"}

// metadata targets are not validated on every path (DELETE /accounts/{address}/metadata/{key}, bulk): any string can be logged
var metaTargets = []string{"alice", "users:001", "quo\"te", "back\\slash", "<tag>&amp;", "line\nbreak", "tab\there", "été", "\u2028", "", " spaced ", "\"", "\\\""}
var assets = []string{"USD", "EUR/2", "COIN", "BTC/8", "A0/123456"}

// genTime: every way the API produces a timestamp: ParseTime of RFC 3339 text (offsets, fractional digits), Now().
func genTime(r *vc.Rand) (ledger.Time, string) {
	if r.Chance(1, 5) {
		return ledger.Now(), "now"
	}
	y := vc.Pick(r, []int{1, 1970, 1999, 2023, 2024, 2038, 2262, 9999})
	s := fmt.Sprintf("%04d-%02d-%02dT%02d:%02d:%02d", y, r.Range(1, 12), r.Range(1, 28), r.Intn(24), r.Intn(60), r.Intn(60))
	if nd := vc.Pick(r, []int{0, 0, 1, 3, 6, 7, 9}); nd > 0 {
		s += "."
		for i := 0; i < nd; i++ {
			s += fmt.Sprint(r.Intn(10))
		}
		if r.Chance(1, 4) {
			s = s[:len(s)-nd] + strings.Repeat("9", nd) // rounding carries
		}
	}
	s += vc.Pick(r, []string{"Z", "Z", "+00:00", "+02:00", "-11:30", "+14:00", "-00:00"})
	t, err := ledger.ParseTime(s)
	if err != nil {
		return ledger.Now(), "now"
	}
	return t, s
}

func genTx(r *vc.Rand, id int64) *ledger.Transaction {
	tx := ledger.NewTransaction()
	n := r.Range(1, 4)
	for i := 0; i < n; i++ {
		tx = tx.WithPostings(ledger.NewPosting(vc.Pick(r, accts), vc.Pick(r, accts), vc.Pick(r, assets), genAmount(r)))
	}
	ts, _ := genTime(r)
	tx = tx.WithDate(ts).WithID(big.NewInt(id)).WithMetadata(genMeta(r))
	if r.Chance(1, 3) {
		tx = tx.WithReference(vc.Pick(r, strs))
	}
	if r.Chance(1, 10) {
		tx.Reverted = true
	}
	return tx
}

type entryDesc struct {
	Kind string `json:"kind"`
	JSON string `json:"stored_json,omitempty"`
}

func genLog(r *vc.Rand, txid *int64) (*ledger.Log, string) {
	var l *ledger.Log
	var kind string
	// log dates: the engine always stamps entries with ledger.Now() (UTC, microseconds); the v1 migration copies UTC
	// dates. Offsets only ever occur in transaction timestamps (inside the payload), never in the entry's own date.
	at, _ := genTime(r)
	at = at.UTC()
	if r.Chance(2, 3) {
		at = ledger.Now()
	}
	switch r.Intn(6) {
	case 0:
		*txid++
		var am map[string]metadata.Metadata
		if r.Bool() {
			am = map[string]metadata.Metadata{vc.Pick(r, accts): genMeta(r)}
		}
		if r.Bool() {
			l = ledger.NewTransactionLog(genTx(r, *txid), am)
		} else {
			l = ledger.NewTransactionLogWithDate(genTx(r, *txid), am, at)
		}
		kind = "NEW_TRANSACTION/-"
	case 1:
		*txid++
		target := int64(0)
		if *txid > 1 {
			target = int64(r.Intn(int(*txid)))
		}
		l = ledger.NewRevertedTransactionLog(at, big.NewInt(target), genTx(r, *txid))
		kind = "REVERTED_TRANSACTION/-"
	case 2:
		l = ledger.NewSetMetadataLog(at, ledger.SetMetadataLogPayload{TargetType: ledger.MetaTargetTypeAccount, TargetID: vc.Pick(r, metaTargets), Metadata: genMeta(r)})
		kind = "SET_METADATA/ACCOUNT"
	case 3:
		id := big.NewInt(int64(r.Intn(1000)))
		if r.Chance(1, 6) {
			id = new(big.Int).SetUint64(1<<63 + uint64(r.Intn(1000)))
		}
		l = ledger.NewSetMetadataLog(at, ledger.SetMetadataLogPayload{TargetType: ledger.MetaTargetTypeTransaction, TargetID: id, Metadata: genMeta(r)})
		kind = "SET_METADATA/TRANSACTION"
	case 4:
		l = ledger.NewDeleteMetadataLog(at, ledger.DeleteMetadataLogPayload{TargetType: ledger.MetaTargetTypeAccount, TargetID: vc.Pick(r, metaTargets), Key: vc.Pick(r, strs)})
		kind = "DELETE_METADATA/ACCOUNT"
	case 5:
		l = ledger.NewDeleteMetadataLog(at, ledger.DeleteMetadataLogPayload{TargetType: ledger.MetaTargetTypeTransaction, TargetID: big.NewInt(int64(r.Intn(1000))), Key: vc.Pick(r, strs)})
		kind = "DELETE_METADATA/TRANSACTION"
	}
	if r.Chance(1, 3) {
		l = l.WithIdempotencyKey(vc.Pick(r, strs) + fmt.Sprint(r.Intn(1000)))
	}
	return l, kind
}

// rehash: independent recomputation: sha256( json(prev.hash) "\n" json(entry with id 0 and hash null) "\n" ).
func rehash(entry ledger.ChainedLog, prevHash []byte, first bool) []byte {
	h := sha256.New()
	if !first {
		b, _ := json.Marshal(prevHash)
		h.Write(b)
		h.Write([]byte("\n"))
	}
	entry.ID = big.NewInt(0)
	entry.Hash = nil
	b, err := json.Marshal(entry)
	if err != nil {
		panic(err)
	}
	h.Write(b)
	h.Write([]byte("\n"))
	return h.Sum(nil)
}

// jsonbNormalise: what a jsonb column gives back: same value, keys re-ordered, insignificant whitespace gone.
func jsonbNormalise(b []byte) ([]byte, error) {
	dec := json.NewDecoder(bytes.NewReader(b))
	dec.UseNumber()
	var v any
	if err := dec.Decode(&v); err != nil {
		return nil, err
	}
	var buf bytes.Buffer
	enc := json.NewEncoder(&buf)
	enc.SetEscapeHTML(false)
	if err := enc.Encode(v); err != nil {
		return nil, err
	}
	return bytes.TrimSpace(buf.Bytes()), nil
}

var digitsRe = regexp.MustCompile(`[0-9]+`)

func guard(f func()) (sig string) {
	defer func() {
		if e := recover(); e != nil {
			st := string(debug.Stack())
			frame := "unknown"
			for _, l := range strings.Split(st, "\n") {
				if strings.HasPrefix(l, "github.com/formancehq/") && !strings.Contains(l, "/internal/verif/") {
					frame = strings.TrimPrefix(l[:strings.LastIndex(l, "(")], "github.com/formancehq/ledger/internal")
					break
				}
			}
			sig = fmt.Sprintf("panic:%s@%s", digitsRe.ReplaceAllString(fmt.Sprint(e), "N"), frame) // values blanked: one signature per failure kind
		}
	}()
	f()
	return ""
}

func runC13(cfg *vc.Config, rep *vc.Report) {
	ctx := context.Background()
	cfg.Cases(3000, 200000, func(i int, r *vc.Rand) {
		n := vc.Pick(r, []int{1, 2, 3, 5, 10, 20, 40, 200})
		if cfg.Tier == "quick" && n > 40 {
			n = 40
		}
		var chain []*ledger.ChainedLog
		var kinds []string
		var prev *ledger.ChainedLog
		txid := int64(-1)
		for k := 0; k < n; k++ {
			l, kind := genLog(r, &txid)
			cl := l.ChainLog(prev)
			chain = append(chain, cl)
			kinds = append(kinds, kind)
			prev = cl
		}
		rep.Current(map[string]any{"index": i, "chain_length": n, "kinds": kinds})
		rep.Max("max_chain_length", int64(n))

		// the rows the real InsertLogs hands to the driver
		db, rec := fakesql.Open()
		store := ledgerstore.NewStoreForVerif(db, "bucket", "ledger0")
		var insertErr error
		if sig := guard(func() { insertErr = store.InsertLogs(ctx, chain...) }); sig != "" {
			rep.Violate("InsertLogs:"+sig, sig, i, map[string]any{"index": i, "kinds": kinds})
		}
		var rowsArgs [][]driver.Value
		for _, s := range rec.Snapshot() {
			if s.Kind == "stmt-exec" && len(s.Args) == 7 {
				rowsArgs = append(rowsArgs, s.Args)
			}
		}
		_ = db.Close()
		if insertErr != nil || len(rowsArgs) != len(chain) {
			rep.Violate("InsertLogs:rows-not-handed-over", fmt.Sprintf("err=%v rows=%d logs=%d", insertErr, len(rowsArgs), len(chain)), i, map[string]any{"index": i, "kinds": kinds})
			rowsArgs = nil
		}

		for k, cl := range chain {
			rep.Eval()
			kind := kinds[k]
			rep.Inc("kind_" + kind)
			var prevHash []byte
			if k > 0 {
				prevHash = chain[k-1].Hash
			}
			stored, err := json.Marshal(cl)
			if err != nil {
				rep.Violate(kind+":marshal-error", err.Error(), i, entryDesc{Kind: kind})
				continue
			}
			desc := entryDesc{Kind: kind, JSON: string(stored)}
			rep.DistinctCase(vc.Hash64(kind, string(stored)))
			// sanity of the generator's own chain: hash as the design reads it
			if !bytes.Equal(rehash(*cl, prevHash, k == 0), cl.Hash) {
				rep.Violate(kind+":hash-not-prev-plus-content", "the chained hash is not sha256(prev.hash, content)", i, desc)
				continue
			}
			// A. stored JSON form
			var back ledger.ChainedLog
			sig := guard(func() { err = json.Unmarshal(stored, &back) })
			switch {
			case sig != "":
				rep.Violate(kind+":json-readback-"+sig, sig, i, desc)
			case err != nil:
				rep.Violate(kind+":json-readback-error", err.Error(), i, desc)
			default:
				again, err := json.Marshal(back)
				if err != nil || !bytes.Equal(again, stored) {
					rep.Violate(kind+":json-roundtrip-differs", fmt.Sprintf("err=%v\nstored: %s\nagain:  %s", err, stored, again), i, desc)
				} else if !bytes.Equal(rehash(back, prevHash, k == 0), cl.Hash) {
					rep.Violate(kind+":json-rehash-differs", "hash recomputed from the round-tripped entry differs from the stored hash", i, desc)
				}
				rep.Inc("json_roundtrips")
			}
			// B. store row form
			if rowsArgs != nil {
				a := rowsArgs[k]
				row, why := rowFromArgs(a)
				if why != "" {
					rep.Violate(kind+":row-not-storable", why, i, desc)
					continue
				}
				var core *ledger.ChainedLog
				if sig := guard(func() { core = row.ToCore() }); sig != "" {
					rep.Violate(kind+":row-readback-"+sig, sig, i, desc)
					continue
				}
				if core.ID.Cmp(cl.ID) != 0 || !bytes.Equal(core.Hash, cl.Hash) {
					rep.Violate(kind+":row-id-or-hash-differs", fmt.Sprintf("id %v vs %v", core.ID, cl.ID), i, desc)
				}
				if !bytes.Equal(rehash(*core, prevHash, k == 0), cl.Hash) {
					a1, _ := json.Marshal(core)
					rep.Violate(kind+":row-rehash-differs", fmt.Sprintf("stored: %s\nread back: %s", stored, a1), i, desc)
				}
				rep.Inc("row_roundtrips")
			}
			if rep.WantSample() && k == 1 {
				rep.Sample(map[string]any{"chain_length": n, "entry": k, "kind": kind, "stored_json": string(stored)})
			}
		}
	})
}

// rowFromArgs rebuilds what PostgreSQL would hand back for the COPY row (ledger,id,type,hash,date,data,idempotency_key).
func rowFromArgs(a []driver.Value) (*ledgerstore.Logs, string) {
	str := func(v driver.Value) (string, bool) {
		switch x := v.(type) {
		case string:
			return x, true
		case []byte:
			return string(x), true
		}
		return "", false
	}
	row := &ledgerstore.Logs{}
	var ok bool
	if row.Ledger, ok = str(a[0]); !ok {
		return nil, "ledger is not text"
	}
	ids, ok := str(a[1])
	if !ok {
		return nil, fmt.Sprintf("id is %T", a[1])
	}
	row.ID = bunpaginate.NewInt()
	if err := row.ID.Scan(ids); err != nil {
		return nil, "id: " + err.Error()
	}
	if row.Type, ok = str(a[2]); !ok {
		return nil, "type is not text"
	}
	h, isb := a[3].([]byte)
	if !isb {
		return nil, fmt.Sprintf("hash is %T", a[3])
	}
	row.Hash = h
	ds, ok := str(a[4])
	if !ok {
		if t, isT := a[4].(time.Time); isT {
			ds = t.Format(time.RFC3339Nano)
		} else {
			return nil, fmt.Sprintf("date is %T", a[4])
		}
	}
	t, err := time.Parse(time.RFC3339Nano, ds)
	if err != nil {
		return nil, "date: " + err.Error()
	}
	// timestamptz keeps microseconds (rounds) and comes back in the session zone; lib/pq hands a time.Time
	if err := row.Date.Scan(t.Round(time.Microsecond)); err != nil {
		return nil, "date scan: " + err.Error()
	}
	data, ok := str(a[5])
	if !ok {
		return nil, fmt.Sprintf("data is %T", a[5])
	}
	nb, err := jsonbNormalise([]byte(data))
	if err != nil {
		return nil, "data is not valid json: " + err.Error()
	}
	row.Data = nb
	if row.IdempotencyKey, ok = str(a[6]); !ok {
		return nil, "idempotency key is not text"
	}
	return row, ""
}

var _ = sort.Strings
