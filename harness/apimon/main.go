// apimon: monitors at the HTTP boundary with a monitoring backend (C18 bulk, C19 read-only).
package main

import (
	"math/big"
	"encoding/json"
	"errors"
	"fmt"
	"net/http"
	"net/http/httptest"
	"os"
	"sort"
	"strings"

	"github.com/formancehq/ledger/internal/api"
	"github.com/formancehq/ledger/internal/engine"
	"github.com/formancehq/ledger/internal/engine/command"
	"github.com/formancehq/ledger/internal/machine"
	"github.com/formancehq/ledger/internal/opentelemetry/metrics"
	. "github.com/formancehq/ledger/internal/verif/apiback"
	vc "github.com/formancehq/ledger/internal/verif/vcommon"
	"github.com/formancehq/stack/libs/go-libs/auth"
	"github.com/formancehq/stack/libs/go-libs/health"
	"github.com/go-chi/chi/v5"
)

func main() {
	cfg := vc.ParseFlags()
	rep := vc.NewReport(cfg)
	switch cfg.Prop {
	case "C19":
		runC19(cfg, rep)
	case "C18":
		runC18(cfg, rep)
	case "C14":
		runC14HTTP(cfg, rep)
	default:
		fmt.Fprintln(os.Stderr, "apimon: unknown property", cfg.Prop)
		os.Exit(3)
	}
	rep.Write(true)
}

func newRouter(b *MonBackend, readOnly bool) chi.Router {
	return api.NewRouter(b, health.NewHealthController(nil), metrics.NewNoOpRegistry(), auth.NewNoAuth(), readOnly)
}

// serve runs one request through the real router; a panic escaping ServeHTTP is reported by the caller.
func serve(h http.Handler, method, target, body string, hdr map[string]string) (code int, respBody string, panicked any) {
	defer func() {
		if e := recover(); e != nil {
			panicked = e
		}
	}()
	req, err := http.NewRequest(method, "http://ledger.test"+target, strings.NewReader(body))
	if err != nil {
		return -1, err.Error(), nil
	}
	req.RequestURI = target
	for k, v := range hdr {
		req.Header.Set(k, v)
	}
	if body != "" && req.Header.Get("Content-Type") == "" {
		req.Header.Set("Content-Type", "application/json")
	}
	w := httptest.NewRecorder()
	h.ServeHTTP(w, req)
	return w.Code, w.Body.String(), nil
}

// ------------------------------------------------------------------------------------------------ C19

type route struct {
	Method  string
	Pattern string
}

func walkRoutes(r chi.Router) []route {
	var out []route
	_ = chi.Walk(r, func(method, pattern string, _ http.Handler, _ ...func(http.Handler) http.Handler) error {
		out = append(out, route{method, pattern})
		return nil
	})
	return out
}

var httpMethods = []string{"GET", "HEAD", "OPTIONS", "POST", "PUT", "PATCH", "DELETE", "TRACE", "CONNECT", "post", "delete", "Post", "FOO", "PROPFIND"}

var bodies = map[string][]string{
	"tx": {
		`{"postings":[{"source":"world","destination":"alice","amount":10,"asset":"USD"}],"metadata":{"k":"v"}}`,
		`{"script":{"plain":"send [USD 1] (\n source = @world\n destination = @bob\n)","vars":{}}}`,
		`{"postings":[{"source":"world","destination":"alice","amount":10,"asset":"USD"}],"reference":"r1","timestamp":"2023-01-01T00:00:00Z"}`,
	},
	"meta": {`{"k":"v"}`, `{}`, `{"a":"b","c":"d"}`},
	"bulk": {
		`[{"action":"CREATE_TRANSACTION","data":{"postings":[{"source":"world","destination":"a","amount":1,"asset":"USD"}]}}]`,
		`[{"action":"ADD_METADATA","ik":"k1","data":{"targetType":"ACCOUNT","targetId":"alice","metadata":{"x":"y"}}},{"action":"REVERT_TRANSACTION","data":{"id":0}},{"action":"DELETE_METADATA","data":{"targetType":"TRANSACTION","targetId":0,"key":"x"}}]`,
	},
	"none": {"", `{}`, `null`},
}

func bodyKind(pattern string) string {
	switch {
	case strings.HasSuffix(pattern, "/_bulk"):
		return "bulk"
	case strings.HasSuffix(pattern, "/metadata"):
		return "meta"
	case strings.HasSuffix(pattern, "/transactions"), strings.HasSuffix(pattern, "/transactions/batch"):
		return "tx"
	}
	return "none"
}

func fillPattern(r *vc.Rand, pattern string) string {
	p := strings.TrimSuffix(pattern, "/*")
	p = strings.ReplaceAll(p, "/*/", "/")
	p = strings.ReplaceAll(p, "{ledger}", vc.Pick(r, []string{"l1", "default", "_", "v2", "a-b", "L%20x"}))
	p = strings.ReplaceAll(p, "{address}", vc.Pick(r, []string{"alice", "users:001", "world", "bad%20addr"}))
	p = strings.ReplaceAll(p, "{id}", vc.Pick(r, []string{"0", "12", "18446744073709551616", "x"}))
	p = strings.ReplaceAll(p, "{key}", vc.Pick(r, []string{"k", "a%2Fb", "é"}))
	return p
}

func pathVariant(r *vc.Rand, p string) string {
	switch r.Intn(8) {
	case 0:
		return p + "/"
	case 1:
		return strings.Replace(p, "/api/ledger/", "/api/ledger//", 1)
	case 2:
		return strings.Replace(p, "/transactions", "/%74ransactions", 1)
	case 3:
		return strings.Replace(p, "/api/ledger/v2", "/api/ledger/V2", 1)
	case 4:
		return p + "/../transactions"
	}
	return p
}

type reqDesc struct {
	Method string            `json:"method"`
	Target string            `json:"target"`
	Body   string            `json:"body,omitempty"`
	Header map[string]string `json:"header,omitempty"`
}

var mwHeaders = [][2]string{{"Origin", "http://app.example"}, {"Access-Control-Request-Method", "POST"}, {"Access-Control-Request-Method", "GET"},
	{"Access-Control-Request-Headers", "content-type"}, {"X-Forwarded-Method", "GET"}, {"X-Original-Method", "GET"}, {"X-Forwarded-For", "10.0.0.1"},
	{"Upgrade", "websocket"}, {"Connection", "Upgrade"}, {"Expect", "100-continue"}, {"If-None-Match", "*"}, {"Accept", "text/event-stream"},
	{"Authorization", "Bearer admin"}, {"X-Read-Only", "false"}, {"Prefer", "respond-async"}, {"traceparent", "00-4bf92f3577b34da6a3ce929d0e0e4736-00f067aa0ba902b7-01"},
	{"X-HTTP-Method-Override", "GET"}, {"X-HTTP-Method", "GET"}, {"Idempotency-Key", "ik0"}}

func genRequest(r *vc.Rand, routes []route) reqDesc {
	rt := vc.Pick(r, routes)
	d := reqDesc{Target: pathVariant(r, fillPattern(r, rt.Pattern)), Header: map[string]string{}}
	// the registered method most of the time (the write routes are POST / DELETE), any other method otherwise
	if r.Chance(1, 2) {
		d.Method = rt.Method
	} else {
		d.Method = vc.Pick(r, httpMethods)
	}
	kind := bodyKind(rt.Pattern)
	if r.Chance(1, 6) {
		kind = vc.Pick(r, []string{"tx", "meta", "bulk", "none"})
	}
	d.Body = vc.Pick(r, bodies[kind])
	var q []string
	for _, kv := range []string{"dryRun=true", "preview=true", "force=true", "continueOnFailure=true", "_method=POST", "_method=GET", "method=DELETE", "dryRun=1&preview=yes", "pageSize=3"} {
		if r.Chance(1, 7) {
			q = append(q, kv)
		}
	}
	if len(q) > 0 {
		d.Target += "?" + strings.Join(q, "&")
	}
	if r.Chance(1, 5) {
		d.Header["X-HTTP-Method-Override"] = vc.Pick(r, []string{"POST", "DELETE", "GET"})
	}
	if r.Chance(1, 6) {
		d.Header["X-HTTP-Method"] = "POST"
	}
	if r.Chance(1, 5) {
		d.Header["Idempotency-Key"] = "ik" + fmt.Sprint(r.Intn(5))
	}
	if r.Chance(1, 10) {
		d.Header["Content-Type"] = vc.Pick(r, []string{"text/plain", "application/x-www-form-urlencoded", "application/json; charset=utf-8"})
	}
	// headers that middlewares in front of the handlers look at (CORS pre-flight, proxies, tracing, conditional requests)
	for _, hv := range mwHeaders {
		if r.Chance(1, 14) {
			d.Header[hv[0]] = hv[1]
		}
	}
	return d
}

func writesOf(calls []Call) (real, dry []Call) {
	for _, c := range calls {
		if c.IsWrite() {
			if c.Params.DryRun {
				dry = append(dry, c)
			} else {
				real = append(real, c)
			}
		}
	}
	return
}

func runC19(cfg *vc.Config, rep *vc.Report) {
	ro, rw := &MonBackend{}, &MonBackend{}
	hRO, hRW := newRouter(ro, true), newRouter(rw, false)
	routes := walkRoutes(hRW)
	rep.Add("routes_registered", int64(len(routes)))
	reached := map[string]bool{}
	check := func(i int, d reqDesc) {
		rep.Eval()
		code, _, pv := serve(hRO, d.Method, d.Target, d.Body, d.Header)
		real, dry := writesOf(ro.Take())
		rep.Add("dry_run_calls_in_read_only", int64(len(dry)))
		if pv != nil {
			rep.Inc("panics_in_read_only")
		}
		for _, c := range real {
			via := "v1"
			if strings.Contains(d.Target, "/v2/") || strings.Contains(d.Target, "/V2/") {
				via = "v2"
			}
			if strings.Contains(d.Target, "_bulk") {
				via += "-bulk"
			}
			rep.Violate("write-in-read-only:"+c.Method+":"+via, fmt.Sprintf("%s %s -> HTTP %d, backend.%s executed (not a dry run)", d.Method, d.Target, code, c.Method), i, d)
		}
		// control: the same request on a read-write router (shows that the corpus is able to reach writes)
		_, _, _ = serve(hRW, d.Method, d.Target, d.Body, d.Header)
		cr, _ := writesOf(rw.Take())
		for _, c := range cr {
			via := "v1"
			if strings.Contains(d.Target, "/v2/") {
				via = "v2"
			}
			if strings.Contains(d.Target, "_bulk") {
				via = "bulk"
			}
			reached[c.Method+"/"+via] = true
			rep.Inc("control_writes_reached")
		}
		if len(cr) > 0 {
			rep.DistinctCase(vc.Hash64(d.Method, d.Target, d.Body, vc.MustJSON(d.Header)))
			if rep.WantSample() {
				rep.Sample(map[string]any{"request": d, "read_only_http_status": code, "writes_when_not_read_only": len(cr)})
			}
		}
	}
	// exhaustive grid (shard 0 only): every registered route x every method, plain path, matching body
	if cfg.Shard == 0 && cfg.Only < 0 {
		gr := vc.NewRand(7)
		for _, rt := range routes {
			for _, m := range httpMethods {
				for _, b := range bodies[bodyKind(rt.Pattern)] {
					p := fillPatternPlain(rt.Pattern)
					check(-1, reqDesc{Method: m, Target: p, Body: b})
					rep.Inc("grid_requests")
				}
			}
			// the registered method with each middleware-relevant header and each option, one at a time
			b := bodies[bodyKind(rt.Pattern)][0]
			p := fillPatternPlain(rt.Pattern)
			for _, hv := range mwHeaders {
				check(-1, reqDesc{Method: rt.Method, Target: p, Body: b, Header: map[string]string{hv[0]: hv[1]}})
				rep.Inc("grid_requests")
			}
			for _, kv := range []string{"dryRun=false", "preview=false", "force=true", "continueOnFailure=true", "_method=GET", "method=GET", "pit=2023-01-01T00:00:00Z", "expand=volumes"} {
				check(-1, reqDesc{Method: rt.Method, Target: p + "?" + kv, Body: b})
				rep.Inc("grid_requests")
			}
		}
		_ = gr
	}
	cfg.Cases(40000, 3000000, func(i int, r *vc.Rand) {
		check(i, genRequest(r, routes))
	})
	// non-vacuity of the control run: every write method through v1, v2 and bulk
	var missing []string
	for _, m := range []string{"CreateTransaction/v1", "CreateTransaction/v2", "CreateTransaction/bulk", "RevertTransaction/v1", "RevertTransaction/v2", "RevertTransaction/bulk",
		"SaveMeta/v1", "SaveMeta/v2", "SaveMeta/bulk", "DeleteMetadata/v1", "DeleteMetadata/v2", "DeleteMetadata/bulk"} {
		if reached[m] {
			rep.Inc("control_reached_" + m)
		} else {
			missing = append(missing, m)
		}
	}
	if len(missing) > 0 && cfg.Only < 0 {
		rep.Inconc("control run (readOnly=false) never reached: " + strings.Join(missing, ", "))
	}
}

func fillPatternPlain(pattern string) string {
	p := strings.TrimSuffix(pattern, "/*")
	p = strings.ReplaceAll(p, "/*/", "/")
	p = strings.ReplaceAll(p, "{ledger}", "l1")
	p = strings.ReplaceAll(p, "{address}", "alice")
	p = strings.ReplaceAll(p, "{id}", "0")
	p = strings.ReplaceAll(p, "{key}", "k")
	return p
}

// ------------------------------------------------------------------------------------------------ C18

type elemPlan struct {
	Action string `json:"action"`
	IK     string `json:"ik,omitempty"`
	Fail   string `json:"fail,omitempty"` // "" = succeeds; otherwise the kind of backend error
	Data   string `json:"data"`
}

var knownActions = []string{"CREATE_TRANSACTION", "ADD_METADATA", "REVERT_TRANSACTION", "DELETE_METADATA"}

func failError(kind string, idx int) error {
	msg := fmt.Sprintf("scripted failure of elem#%d", idx)
	switch kind {
	case "insufficient":
		return engine.NewCommandError(command.NewErrMachine(machine.NewErrInsufficientFund(msg)))
	case "conflict":
		return engine.NewCommandError(command.NewErrConflict())
	case "already-reverted":
		return engine.NewCommandError(command.NewErrRevertTransactionAlreadyReverted())
	case "not-found":
		return engine.NewCommandError(command.NewErrRevertTransactionNotFound())
	case "compile":
		return engine.NewCommandError(command.NewErrCompilationFailed(errors.New(msg)))
	case "no-postings":
		return engine.NewCommandError(command.NewErrNoPostings())
	case "no-script":
		return engine.NewCommandError(command.NewErrNoScript())
	case "revert-occurring":
		return engine.NewCommandError(command.NewErrRevertTransactionOccurring())
	default:
		return errors.New(msg)
	}
}

// elemIndex recovers which bulk element a backend call belongs to (each element carries its index in its payload).
func elemIndex(c Call) int {
	idx := -1
	switch c.Method {
	case "CreateTransaction":
		if c.Script != nil {
			fmt.Sscanf(c.Script.Metadata["elem"], "%d", &idx)
		}
	case "RevertTransaction":
		if c.ID != nil {
			idx = int(c.ID.Int64()) - 1000
		}
	case "SaveMeta":
		if _, ok := c.Meta["elem"]; ok {
			fmt.Sscanf(c.Meta["elem"], "%d", &idx)
		} else if s, ok := c.TID.(string); ok { // an element with empty metadata is recognised by its target
			fmt.Sscanf(s, "acc%d", &idx)
		} else if n, ok := c.TID.(*big.Int); ok && n != nil {
			idx = int(n.Int64())
		}
	case "DeleteMetadata":
		fmt.Sscanf(c.Key, "k%d", &idx)
	}
	return idx
}

func methodOf(action string) string {
	return map[string]string{"CREATE_TRANSACTION": "CreateTransaction", "ADD_METADATA": "SaveMeta", "REVERT_TRANSACTION": "RevertTransaction", "DELETE_METADATA": "DeleteMetadata"}[action]
}

func runC18(cfg *vc.Config, rep *vc.Report) {
	b := &MonBackend{}
	h := newRouter(b, false)
	cfg.Cases(20000, 1000000, func(i int, r *vc.Rand) {
		n := r.Range(1, 12)
		cont := r.Chance(1, 2)
		failPct := vc.Pick(r, []int{0, 10, 30, 60})
		unknownPct := vc.Pick(r, []int{0, 0, 10, 30})
		plan := make([]elemPlan, n)
		for k := range plan {
			e := &plan[k]
			if r.Intn(100) < unknownPct {
				e.Action = vc.Pick(r, []string{"UNKNOWN", "", "create_transaction", "CREATE_TRANSACTIONS", "NOOP"})
			} else {
				e.Action = vc.Pick(r, knownActions)
			}
			if r.Chance(1, 3) {
				e.IK = fmt.Sprintf("ik-%d-%d", i, k)
			}
			if r.Intn(100) < failPct {
				e.Fail = vc.Pick(r, []string{"insufficient", "conflict", "already-reverted", "not-found", "internal", "compile", "compile", "no-postings", "no-script", "revert-occurring"})
			}
			switch e.Action {
			case "ADD_METADATA":
				md := fmt.Sprintf(`,"metadata":{"elem":"%d"}`, k)
				if r.Chance(1, 6) { // nothing to set is still an element: empty, null or absent metadata
					md = vc.Pick(r, []string{`,"metadata":{}`, `,"metadata":null`, ``})
					rep.Inc("add_metadata_elements_without_metadata")
				}
				if r.Bool() {
					e.Data = fmt.Sprintf(`{"targetType":"ACCOUNT","targetId":"acc%d"%s}`, k, md)
				} else {
					e.Data = fmt.Sprintf(`{"targetType":"TRANSACTION","targetId":%d%s}`, k, md)
				}
			case "REVERT_TRANSACTION":
				e.Data = fmt.Sprintf(`{"id":%d,"force":%v}`, 1000+k, r.Bool())
			case "DELETE_METADATA":
				if r.Bool() {
					e.Data = fmt.Sprintf(`{"targetType":"ACCOUNT","targetId":"acc%d","key":"k%d"}`, k, k)
				} else {
					e.Data = fmt.Sprintf(`{"targetType":"TRANSACTION","targetId":%d,"key":"k%d"}`, k, k)
				}
			default: // CREATE_TRANSACTION and unknown actions carry a transaction payload
				if r.Bool() {
					e.Data = fmt.Sprintf(`{"postings":[{"source":"world","destination":"acc%d","amount":%d,"asset":"USD"}],"metadata":{"elem":"%d"}}`, k, k+1, k)
				} else {
					e.Data = fmt.Sprintf(`{"script":{"plain":"send [USD %d] (\n source = @world\n destination = @acc%d\n)","vars":{}},"metadata":{"elem":"%d"}}`, k+1, k, k)
				}
			}
		}
		var sb strings.Builder
		sb.WriteString("[")
		for k, e := range plan {
			if k > 0 {
				sb.WriteString(",")
			}
			// optional members are left out as often as they are sent empty (a client library omits what is unset)
			var members []string
			if e.Action != "" || r.Bool() {
				members = append(members, fmt.Sprintf(`"action":%q`, e.Action))
			}
			if e.IK != "" || r.Bool() {
				members = append(members, fmt.Sprintf(`"ik":%q`, e.IK))
			} else {
				rep.Inc("elements_without_ik_member")
			}
			members = append(members, `"data":`+e.Data)
			if r.Chance(1, 4) {
				members[0], members[len(members)-1] = members[len(members)-1], members[0]
			}
			sb.WriteString("{" + strings.Join(members, ",") + "}")
		}
		sb.WriteString("]")
		b.Decide = func(c Call) error {
			k := elemIndex(c)
			if k >= 0 && k < n && plan[k].Fail != "" {
				return failError(plan[k].Fail, k)
			}
			return nil
		}
		target := "/api/ledger/v2/l1/_bulk"
		// spellings a client clearly means as on / off (others - "yes", "t", a bare parameter - are left out: the
		// statement does not say how they read)
		spelling := ""
		if cont {
			spelling = vc.Pick(r, []string{"true", "true", "1", "TRUE", "True"})
			target += "?continueOnFailure=" + spelling
		} else if r.Chance(1, 2) {
			spelling = vc.Pick(r, []string{"false", "0", "False", "FALSE", "no", "off"})
			target += "?continueOnFailure=" + spelling
			rep.Inc("bulks_with_option_explicitly_off")
		}
		desc := map[string]any{"index": i, "continueOnFailure": cont, "spelling": spelling, "elements": plan}
		rep.Current(desc)
		rep.Eval()
		code, body, pv := serve(h, "POST", target, sb.String(), nil)
		calls := b.Take()
		viol := func(rule, what string) {
			desc["http_status"] = code
			desc["response"] = body
			rep.Violate(rule, what, i, desc)
		}
		if pv != nil {
			viol("panic-in-bulk", fmt.Sprint(pv))
			return
		}
		// expected processing according to the statement
		isKnown := func(a string) bool { return methodOf(a) != "" }
		failing := func(e elemPlan) bool { return e.Fail != "" || !isKnown(e.Action) }
		processed := n
		anyFail := false
		firstFail := -1
		for k, e := range plan {
			if failing(e) {
				anyFail = true
				if firstFail < 0 {
					firstFail = k
				}
				if !cont {
					processed = k + 1
					break
				}
			}
		}
		if firstFail >= 0 {
			rep.Inc(fmt.Sprintf("first_failure_at_%d", min2(firstFail, 6)))
		}
		// (1) backend calls = the processed known-action elements, in order, each with its own ik
		var wantCalls []int
		for k := 0; k < processed; k++ {
			if isKnown(plan[k].Action) {
				wantCalls = append(wantCalls, k)
			}
		}
		var gotCalls []int
		for _, c := range calls {
			if !c.IsWrite() {
				continue
			}
			k := elemIndex(c)
			gotCalls = append(gotCalls, k)
			if k >= 0 && k < n {
				if c.Method != methodOf(plan[k].Action) {
					viol("element-executed-as-other-action", fmt.Sprintf("element %d (%s) reached backend.%s", k, plan[k].Action, c.Method))
				}
				if c.Params.IdempotencyKey != plan[k].IK {
					viol("idempotency-key-misattributed", fmt.Sprintf("element %d has ik %q, backend got %q", k, plan[k].IK, c.Params.IdempotencyKey))
				}
				if c.Params.DryRun {
					viol("bulk-element-run-as-dry-run", fmt.Sprintf("element %d", k))
				}
			}
		}
		if fmt.Sprint(gotCalls) != fmt.Sprint(wantCalls) {
			rule := "execution-order-or-set-differs"
			if len(gotCalls) > len(wantCalls) && !cont && isPrefix(wantCalls, gotCalls) {
				rule = "executed-after-first-failure"
			}
			viol(rule, fmt.Sprintf("elements executed (by index): %v, expected %v", gotCalls, wantCalls))
		}
		// (2) one result per processed element, at the same position
		var resp struct {
			Data []struct {
				ErrorCode        string          `json:"errorCode"`
				ErrorDescription string          `json:"errorDescription"`
				ResponseType     string          `json:"responseType"`
				Data             json.RawMessage `json:"data"`
			} `json:"data"`
		}
		if err := json.Unmarshal([]byte(body), &resp); err != nil {
			viol("response-not-json", err.Error())
			return
		}
		if len(resp.Data) != processed {
			rule := "result-count-differs"
			for k := 0; k < processed; k++ {
				if !isKnown(plan[k].Action) {
					rule = "no-result-for-unknown-action"
				}
			}
			viol(rule, fmt.Sprintf("%d results for %d processed elements (of %d)", len(resp.Data), processed, n))
		} else {
			for k := 0; k < processed; k++ {
				res := resp.Data[k]
				if failing(plan[k]) {
					if res.ErrorCode == "" || res.ResponseType != "ERROR" {
						viol("failed-element-reported-as-success", fmt.Sprintf("position %d: %+v", k, res))
					} else if isKnown(plan[k].Action) && !strings.Contains(res.ErrorDescription, fmt.Sprintf("elem#%d", k)) && plan[k].Fail == "internal" {
						viol("result-at-wrong-position", fmt.Sprintf("position %d carries %q", k, res.ErrorDescription))
					}
				} else {
					if res.ErrorCode != "" || res.ResponseType != plan[k].Action {
						viol("result-at-wrong-position", fmt.Sprintf("position %d: want %s success, got type=%s code=%s", k, plan[k].Action, res.ResponseType, res.ErrorCode))
					}
				}
			}
		}
		// (3) the response signals failure exactly when some processed element failed
		if (code == http.StatusBadRequest) != anyFail || (code != http.StatusOK && code != http.StatusBadRequest) {
			viol("status-does-not-match-outcome", fmt.Sprintf("HTTP %d, some element failed = %v", code, anyFail))
		}
		for _, e := range plan[:processed] {
			rep.Inc("action_" + actName(e.Action) + map[bool]string{true: "_fail", false: "_ok"}[failing(e)])
		}
		if cont {
			rep.Inc("continue_on_failure")
		}
		rep.DistinctCase(vc.Hash64(sb.String(), fmt.Sprint(cont)))
		if rep.WantSample() && anyFail && n > 3 {
			desc["http_status"] = code
			rep.Sample(desc)
		}
	})
}

func actName(a string) string {
	if methodOf(a) == "" {
		return "UNKNOWN"
	}
	return a
}

func isPrefix(a, b []int) bool {
	if len(a) > len(b) {
		return false
	}
	for i := range a {
		if a[i] != b[i] {
			return false
		}
	}
	return true
}

func min2(a, b int) int {
	if a < b {
		return a
	}
	return b
}

var _ = sort.Strings

// ------------------------------------------------------------------------------------------------ C14 at the HTTP boundary

// runC14HTTP: every write route of both API versions, submitted with the dry-run flag in every spelling the handlers
// accept at the pinned commit (v2 `dryRun`, v1 `preview`: yes / true in any case, 1), must reach the engine with
// Parameters.DryRun = true; without the flag (or with a negative spelling) it must not.
func runC14HTTP(cfg *vc.Config, rep *vc.Report) {
	b := &MonBackend{}
	h := newRouter(b, false)
	type wr struct{ method, path, body, backendMethod string }
	routes := map[string][]wr{
		"v2": {
			{"POST", "/api/ledger/v2/l1/transactions", bodies["tx"][0], "CreateTransaction"},
			{"POST", "/api/ledger/v2/l1/transactions", bodies["tx"][1], "CreateTransaction"},
			{"POST", "/api/ledger/v2/l1/transactions/3/revert", "", "RevertTransaction"},
			{"POST", "/api/ledger/v2/l1/accounts/alice/metadata", bodies["meta"][0], "SaveMeta"},
			{"POST", "/api/ledger/v2/l1/transactions/3/metadata", bodies["meta"][0], "SaveMeta"},
			{"DELETE", "/api/ledger/v2/l1/accounts/alice/metadata/k", "", "DeleteMetadata"},
			{"DELETE", "/api/ledger/v2/l1/transactions/3/metadata/k", "", "DeleteMetadata"},
		},
		"v1": {
			{"POST", "/api/ledger/l1/transactions", bodies["tx"][0], "CreateTransaction"},
			{"POST", "/api/ledger/l1/transactions", bodies["tx"][1], "CreateTransaction"},
			{"POST", "/api/ledger/l1/transactions/3/revert", "", "RevertTransaction"},
			{"POST", "/api/ledger/l1/accounts/alice/metadata", bodies["meta"][0], "SaveMeta"},
			{"POST", "/api/ledger/l1/transactions/3/metadata", bodies["meta"][0], "SaveMeta"},
			{"DELETE", "/api/ledger/l1/accounts/alice/metadata/k", "", "DeleteMetadata"},
		},
	}
	flag := map[string]string{"v2": "dryRun", "v1": "preview"}
	positive := []string{"true", "TRUE", "True", "tRuE", "1", "yes", "YES", "Yes"}
	negative := []string{"", "false", "0", "no", "2", "truee"}
	for ver, rs := range routes {
		for _, rt := range rs {
			for _, sp := range append(append([]string{}, positive...), negative...) {
				isPos := false
				for _, p := range positive {
					if p == sp {
						isPos = true
					}
				}
				target := rt.path
				if sp != "" {
					target += "?" + flag[ver] + "=" + sp
				}
				extra := ""
				if rt.backendMethod == "RevertTransaction" && sp != "" {
					extra = "&force=true"
				}
				rep.Eval()
				code, _, pv := serve(h, rt.method, target+extra, rt.body, map[string]string{"Idempotency-Key": "ik1"})
				calls := b.Take()
				desc := map[string]any{"method": rt.method, "target": target + extra, "http_status": code}
				var w *Call
				for k := range calls {
					if calls[k].IsWrite() {
						w = &calls[k]
					}
				}
				if pv != nil || w == nil {
					rep.Inc("write_route_not_reached")
					continue
				}
				rep.DistinctCase(vc.Hash64(rt.method, target))
				if isPos {
					rep.Inc("dry_run_requests")
					if !w.Params.DryRun {
						rep.Violate("preview-executed-for-real:"+ver+":"+rt.backendMethod, fmt.Sprintf("%s %s reached backend.%s with DryRun=false: the write is executed (log entry, transaction id, event)", rt.method, target, w.Method), -1, desc)
					}
				} else {
					rep.Inc("real_requests")
					if w.Params.DryRun {
						rep.Violate("real-write-treated-as-preview:"+ver+":"+rt.backendMethod, fmt.Sprintf("%s %s reached backend.%s with DryRun=true", rt.method, target, w.Method), -1, desc)
					}
				}
				if w.Params.IdempotencyKey != "ik1" {
					rep.Violate("idempotency-key-lost:"+ver+":"+rt.backendMethod, w.Params.IdempotencyKey, -1, desc)
				}
				if rep.WantSample() && isPos {
					rep.Sample(desc)
				}
			}
		}
	}
}
