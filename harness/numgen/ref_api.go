package numgen

import "math/big"

// Binding: variables bound as the reference binds them; helpers for the model-free oracles (C01, C03).
type Binding struct{ s *evalState }

// Bind returns nil when the program is statically refused or a variable cannot be bound.
func Bind(p *Program, w *World) *Binding {
	st := &static{vt: map[string]Type{}}
	if err := st.check(p); err != nil {
		return nil
	}
	s := &evalState{w: w, vals: map[string]Value{}, bal: map[string]map[string]*big.Int{}, tx: map[string]Value{}, acc: map[string]map[string]Value{}}
	for _, v := range p.Vars {
		if v.Origin == OrPlain {
			raw, ok := w.Vars[v.Name]
			if !ok {
				return nil
			}
			val, err := parseValue(v.Type, raw)
			if err != nil {
				return nil
			}
			s.vals[v.Name] = val
		}
	}
	for _, v := range p.Vars {
		switch v.Origin {
		case OrMeta:
			a, _ := s.eval(v.Acc)
			raw, ok := w.Meta[a.S][v.Key]
			if !ok {
				return nil
			}
			val, err := parseValue(v.Type, raw)
			if err != nil {
				return nil
			}
			s.vals[v.Name] = val
		case OrBalance:
			a, _ := s.eval(v.Acc)
			as, _ := s.eval(v.Asset)
			b := new(big.Int)
			if m, ok := w.Balances[a.S]; ok && m[as.S] != nil {
				b.Set(m[as.S])
			}
			s.vals[v.Name] = Value{T: TMonetary, Asset: as.S, N: b}
		}
	}
	return &Binding{s}
}

func (b *Binding) Expr(e Expr) (Value, bool) {
	v, err := b.s.eval(e)
	return v, err == nil
}

func (b *Binding) SendAsset(sd Send) string {
	if sd.Mon != nil {
		return b.s.leftAsset(sd.Mon)
	}
	a, _ := b.s.eval(sd.AllAsset)
	return a.S
}

// Leaf: destination leaf with the amount the split rule assigns to it.
type Leaf struct {
	Kept bool
	Acc  string
	Amt  *big.Int
}

func (b *Binding) DestLeaves(d Dest, amt *big.Int, asset string) ([]Leaf, bool) {
	ls, err := b.s.dest(d, amt, asset)
	if err != nil {
		return nil, false
	}
	out := make([]Leaf, len(ls))
	for i, l := range ls {
		out[i] = Leaf{l.kept, l.acc, l.amt}
	}
	return out, true
}

func (b *Binding) Shares(ps []Portion, amt *big.Int) ([]*big.Int, bool) {
	rs, err := b.s.allotment(ps)
	if err != nil {
		return nil, false
	}
	return Allocate(amt, rs), true
}

// Capacity of a source against the *initial* balances (valid when every account occurs once): nil = unlimited.
func (b *Binding) Capacity(src Source, asset string) (*big.Int, bool) {
	switch src := src.(type) {
	case SrcAccount:
		if isWorldLit(src.Acc) || src.Od == OdUnbounded {
			return nil, true
		}
		a, _ := b.s.eval(src.Acc)
		bal := new(big.Int)
		if m, ok := b.s.w.Balances[a.S]; ok && m[asset] != nil {
			bal.Set(m[asset])
		}
		if src.Od == OdSpecific {
			v, err := b.s.eval(src.Specific)
			if err != nil || v.Asset != asset {
				return nil, false
			}
			bal.Add(bal, v.N)
		}
		if bal.Sign() < 0 {
			bal.SetInt64(0)
		}
		return bal, true
	case SrcMaxed:
		c, ok := b.Capacity(src.Src, asset)
		if !ok {
			return nil, false
		}
		mx, err := b.s.eval(src.Max)
		if err != nil || mx.Asset != asset || mx.N.Sign() < 0 {
			return nil, false
		}
		if c == nil || c.Cmp(mx.N) > 0 {
			return new(big.Int).Set(mx.N), true
		}
		return c, true
	case SrcInOrder:
		t := new(big.Int)
		for _, x := range src.Srcs {
			c, ok := b.Capacity(x, asset)
			if !ok {
				return nil, false
			}
			if c == nil {
				return nil, true
			}
			t.Add(t, c)
		}
		return t, true
	}
	return nil, false
}

// Accounts under a source / destination subtree (resolved addresses).
func (b *Binding) SourceAccounts(src Source) []string {
	var out []string
	switch src := src.(type) {
	case SrcAccount:
		a, _ := b.s.eval(src.Acc)
		out = append(out, a.S)
	case SrcMaxed:
		out = b.SourceAccounts(src.Src)
	case SrcInOrder:
		for _, x := range src.Srcs {
			out = append(out, b.SourceAccounts(x)...)
		}
	case SrcAllotment:
		for _, x := range src.Srcs {
			out = append(out, b.SourceAccounts(x)...)
		}
	}
	return out
}

func (b *Binding) DestAccounts(d Dest) []string {
	var out []string
	kod := func(k KeptOrDest) {
		if !k.Kept {
			out = append(out, b.DestAccounts(k.To)...)
		}
	}
	switch d := d.(type) {
	case DestAccount:
		a, _ := b.s.eval(d.Acc)
		out = append(out, a.S)
	case DestInOrder:
		for _, k := range d.Dests {
			kod(k)
		}
		kod(d.Remaining)
	case DestAllotment:
		for _, k := range d.Dests {
			kod(k)
		}
	}
	return out
}
