package numgen

import (
	"fmt"
	"math/big"
	"regexp"
	"sort"
	"strings"
)

// ------------------------------------------------------------------------------------------------
// Reference evaluator: a tree-walking big-int interpreter of the AST. Semantics as read from the language:
//   * a send's source tree yields an ordered list of (account, amount) parts ("funding"): an account gives
//     max(0, balance+overdraft), `max` caps, ordered blocks concatenate, an unbounded account / @world
//     supplies whatever is still missing, an allotment source makes every branch cover its share;
//   * the destination tree yields an ordered list of leaves (account|kept, amount): allotment = floored shares,
//     leftover units one each to the earliest entries; ordered = min(max_i, left), then remaining;
//   * non-kept leaves consume the funding front to back; what is left (kept) returns to its accounts.

type World struct {
	Vars     map[string]string              `json:"vars"`
	Balances map[string]map[string]*big.Int `json:"balances"`
	Meta     map[string]map[string]string   `json:"meta"`
	TxMeta   map[string]string              `json:"txmeta"` // request-level metadata merged by vm.Run
}

type Posting struct {
	Src, Dst, Asset string
	Amt             *big.Int
}

func (p Posting) String() string { return fmt.Sprintf("%s->%s %s %s", p.Src, p.Dst, p.Asset, p.Amt) }

const (
	ClsOK           = "ok"
	ClsInsufficient = "insufficient"
	ClsRefused      = "refused" // any reported error other than insufficient funds
	ClsAny          = "any"     // some reported error; the language does not say which class
)

type Outcome struct {
	// Quirk: the program uses a construct on which the VM is known to refuse although the reading above defines a
	// result ("inorder-kept": in an ordered destination, an entry after a `kept` entry is offered funds that the
	// kept entry already took). Set by the reference so that exactly this input class can be singled out.
	Quirk    string
	Class    string
	Why      string
	Postings []Posting
	TxMeta   map[string]string
	AccMeta  map[string]map[string]string
}

type Value struct {
	T     Type
	S     string   // account, asset, string
	N     *big.Int // number, monetary amount
	Asset string   // monetary
	R     *big.Rat // portion
}

type refErr struct {
	class string
	why   string
}

func (e *refErr) Error() string { return e.class + ": " + e.why }
func refuse(f string, a ...any) *refErr {
	return &refErr{ClsRefused, fmt.Sprintf(f, a...)}
}
func insufficient(f string, a ...any) *refErr {
	return &refErr{ClsInsufficient, fmt.Sprintf(f, a...)}
}
func anyErr(f string, a ...any) *refErr { return &refErr{ClsAny, fmt.Sprintf(f, a...)} }

var (
	reAccount = regexp.MustCompile(`^[a-zA-Z0-9_]+(?:-[a-zA-Z0-9_]+)*(:[a-zA-Z0-9_]+(?:-[a-zA-Z0-9_]+)*)*$`)
	reAsset   = regexp.MustCompile(`^[A-Z][A-Z0-9]{0,16}(/\d{1,6})?$`)
	rePct     = regexp.MustCompile(`^([0-9]+)(?:[.]([0-9]+))?%$`)
	reFrac    = regexp.MustCompile(`^([0-9]+)\s?/\s?([0-9]+)$`)
	reInt     = regexp.MustCompile(`^-?[0-9]+$`)
)

// ParsePortion: "a/b" or "x.y%"; must lie in [0,1].
func ParsePortion(s string) (*big.Rat, bool) {
	var r *big.Rat
	if m := rePct.FindStringSubmatch(s); m != nil {
		digits := m[1] + m[2]
		num, _ := new(big.Int).SetString(digits, 10)
		den := new(big.Int).Exp(big.NewInt(10), big.NewInt(int64(len(m[2])+2)), nil)
		r = new(big.Rat).SetFrac(num, den)
	} else if m := reFrac.FindStringSubmatch(s); m != nil {
		num, _ := new(big.Int).SetString(m[1], 10)
		den, _ := new(big.Int).SetString(m[2], 10)
		if den.Sign() == 0 {
			return nil, false
		}
		r = new(big.Rat).SetFrac(num, den)
	} else {
		return nil, false
	}
	if r.Sign() < 0 || r.Cmp(big.NewRat(1, 1)) > 0 {
		return nil, false
	}
	return r, true
}

func parseValue(t Type, s string) (Value, *refErr) {
	switch t {
	case TAccount:
		if !reAccount.MatchString(s) {
			return Value{}, refuse("bad account %q", s)
		}
		return Value{T: t, S: s}, nil
	case TAsset:
		if !reAsset.MatchString(s) {
			return Value{}, refuse("bad asset %q", s)
		}
		return Value{T: t, S: s}, nil
	case TNumber:
		if !reInt.MatchString(s) {
			return Value{}, refuse("bad number %q", s)
		}
		n, _ := new(big.Int).SetString(s, 10)
		return Value{T: t, N: n}, nil
	case TString:
		return Value{T: t, S: s}, nil
	case TMonetary:
		parts := strings.SplitN(s, " ", 2)
		if len(parts) != 2 || !reAsset.MatchString(parts[0]) {
			return Value{}, refuse("bad monetary %q", s)
		}
		n, ok := new(big.Int).SetString(parts[1], 10)
		if !ok || n.Sign() < 0 {
			return Value{}, refuse("bad monetary amount %q", s)
		}
		return Value{T: t, Asset: parts[0], N: n}, nil
	case TPortion:
		r, ok := ParsePortion(s)
		if !ok {
			return Value{}, refuse("bad portion %q", s)
		}
		return Value{T: t, R: r}, nil
	}
	return Value{}, refuse("bad type")
}

func (v Value) MetaString() string {
	switch v.T {
	case TAccount, TAsset, TString:
		return v.S
	case TNumber:
		return v.N.String()
	case TMonetary:
		return v.Asset + " " + v.N.String()
	case TPortion:
		return v.R.String() // a/b in lowest terms
	}
	return "?"
}

// ------------------------------------------------------------------------------------------------ static

type static struct {
	vt map[string]Type
}

func (st *static) typeOf(e Expr) (Type, *refErr) {
	switch e := e.(type) {
	case LitAccount:
		return TAccount, nil
	case LitAsset:
		return TAsset, nil
	case LitNumber:
		return TNumber, nil
	case LitString:
		return TString, nil
	case LitPortion:
		if _, ok := ParsePortion(e.Text); !ok {
			return 0, refuse("invalid portion literal %s", e.Text)
		}
		return TPortion, nil
	case LitMonetary:
		t, err := st.typeOf(e.Asset)
		if err != nil {
			return 0, err
		}
		if t != TAsset {
			return 0, refuse("monetary literal asset is %s", t)
		}
		return TMonetary, nil
	case VarRef:
		t, ok := st.vt[e.Name]
		if !ok {
			return 0, refuse("undeclared variable $%s", e.Name)
		}
		return t, nil
	case BinOp:
		l, err := st.typeOf(e.L)
		if err != nil {
			return 0, err
		}
		if l != TNumber && l != TMonetary {
			return 0, refuse("arithmetic on %s", l)
		}
		r, err := st.typeOf(e.R)
		if err != nil {
			return 0, err
		}
		if r != l {
			return 0, refuse("arithmetic on %s and %s", l, r)
		}
		return l, nil
	}
	return 0, refuse("unknown expression")
}

func (st *static) want(e Expr, t Type, what string) *refErr {
	got, err := st.typeOf(e)
	if err != nil {
		return err
	}
	if got != t {
		return refuse("%s: want %s got %s", what, t, got)
	}
	return nil
}

func (st *static) allotment(ps []Portion) *refErr {
	total := new(big.Rat)
	hasVar, hasRem := false, false
	for _, p := range ps {
		switch p.Kind {
		case PConst:
			r, ok := ParsePortion(p.Text)
			if !ok {
				return refuse("invalid portion %s", p.Text)
			}
			total.Add(total, r)
		case PVar:
			t, ok := st.vt[p.Text]
			if !ok {
				return refuse("undeclared variable $%s", p.Text)
			}
			if t != TPortion {
				return refuse("portion variable $%s is %s", p.Text, t)
			}
			hasVar = true
		case PRemaining:
			if hasRem {
				return refuse("two remaining")
			}
			hasRem = true
		}
	}
	c := total.Cmp(big.NewRat(1, 1))
	switch {
	case c > 0:
		return refuse("portions exceed 100%%")
	case c < 0 && !hasRem:
		return refuse("portions might be less than 100%%")
	case c == 0 && hasVar:
		return refuse("portions might exceed 100%%")
	case c == 0 && hasRem:
		return refuse("portions already 100%%")
	}
	return nil
}

func isWorldLit(e Expr) bool {
	l, ok := e.(LitAccount)
	return ok && l.Addr == "world"
}

// source returns (syntactic accounts emptied, unbounded?)
func (st *static) source(s Source, isAll bool) (map[string]bool, bool, *refErr) {
	switch s := s.(type) {
	case SrcAccount:
		if err := st.want(s.Acc, TAccount, "source account"); err != nil {
			return nil, false, err
		}
		unb := isWorldLit(s.Acc)
		switch s.Od {
		case OdSpecific:
			if isWorldLit(s.Acc) {
				return nil, false, refuse("overdraft on @world")
			}
			if err := st.want(s.Specific, TMonetary, "overdraft"); err != nil {
				return nil, false, err
			}
		case OdUnbounded:
			if isWorldLit(s.Acc) {
				return nil, false, refuse("overdraft on @world")
			}
			unb = true
		}
		if unb && isAll {
			return nil, false, refuse("cannot take all of an unbounded source")
		}
		return map[string]bool{ExprString(s.Acc): true}, unb, nil
	case SrcMaxed:
		if _, _, err := st.source(s.Src, false); err != nil {
			return nil, false, err
		}
		if err := st.want(s.Max, TMonetary, "max"); err != nil {
			return nil, false, err
		}
		return map[string]bool{}, false, nil
	case SrcInOrder:
		emptied := map[string]bool{}
		unb := false
		for i, x := range s.Srcs {
			e, u, err := st.source(x, isAll)
			if err != nil {
				return nil, false, err
			}
			unb = u
			if u && i != len(s.Srcs)-1 {
				return nil, false, refuse("unbounded subsource not last")
			}
			for k := range e {
				if emptied[k] {
					return nil, false, refuse("%s already emptied", k)
				}
				emptied[k] = true
			}
		}
		return emptied, unb, nil
	case SrcAllotment:
		return nil, false, refuse("allotment source nested")
	}
	return nil, false, refuse("unknown source")
}

func (st *static) kod(k KeptOrDest) *refErr {
	if k.Kept {
		return nil
	}
	return st.dest(k.To)
}

func (st *static) dest(d Dest) *refErr {
	switch d := d.(type) {
	case DestAccount:
		return st.want(d.Acc, TAccount, "destination")
	case DestInOrder:
		for i := range d.Dests {
			if err := st.want(d.Maxes[i], TMonetary, "destination max"); err != nil {
				return err
			}
			if err := st.kod(d.Dests[i]); err != nil {
				return err
			}
		}
		return st.kod(d.Remaining)
	case DestAllotment:
		if err := st.allotment(d.Portions); err != nil {
			return err
		}
		for _, k := range d.Dests {
			if err := st.kod(k); err != nil {
				return err
			}
		}
		return nil
	}
	return refuse("unknown destination")
}

func (st *static) check(p *Program) *refErr {
	for _, v := range p.Vars {
		if _, dup := st.vt[v.Name]; dup {
			return refuse("duplicate variable $%s", v.Name)
		}
		switch v.Origin {
		case OrMeta:
			if err := st.want(v.Acc, TAccount, "meta account"); err != nil {
				return err
			}
		case OrBalance:
			if v.Type != TMonetary {
				return refuse("balance variable must be monetary")
			}
			if err := st.want(v.Acc, TAccount, "balance account"); err != nil {
				return err
			}
			if err := st.want(v.Asset, TAsset, "balance asset"); err != nil {
				return err
			}
		}
		st.vt[v.Name] = v.Type
	}
	for _, s := range p.Stmts {
		switch s := s.(type) {
		case Send:
			isAll := s.Mon == nil
			if isAll {
				if err := st.want(s.AllAsset, TAsset, "send all"); err != nil {
					return err
				}
			} else if err := st.want(s.Mon, TMonetary, "send"); err != nil {
				return err
			}
			if al, ok := s.Src.(SrcAllotment); ok {
				if isAll {
					return refuse("send all from allotment")
				}
				if err := st.allotment(al.Portions); err != nil {
					return err
				}
				for _, x := range al.Srcs {
					if _, _, err := st.source(x, false); err != nil {
						return err
					}
				}
			} else if _, _, err := st.source(s.Src, isAll); err != nil {
				return err
			}
			if err := st.dest(s.Dst); err != nil {
				return err
			}
		case SetTxMeta:
			if _, err := st.typeOf(s.Val); err != nil {
				return err
			}
		case SetAccountMeta:
			if _, err := st.typeOf(s.Val); err != nil {
				return err
			}
			if err := st.want(s.Acc, TAccount, "set_account_meta"); err != nil {
				return err
			}
		case Save:
			if s.Mon != nil {
				if err := st.want(s.Mon, TMonetary, "save"); err != nil {
					return err
				}
			} else if err := st.want(s.AllAsset, TAsset, "save all"); err != nil {
				return err
			}
			if err := st.want(s.Acc, TAccount, "save account"); err != nil {
				return err
			}
		case Print:
			if _, err := st.typeOf(s.E); err != nil {
				return err
			}
		case Fail:
		}
	}
	return nil
}

// ------------------------------------------------------------------------------------------------ dynamic

type part struct {
	acc string
	amt *big.Int
}
type funding []part

func (f funding) total() *big.Int {
	t := new(big.Int)
	for _, p := range f {
		t.Add(t, p.amt)
	}
	return t
}

func concat(a, b funding) funding {
	out := append(funding{}, a...)
	for _, p := range b {
		if n := len(out); n > 0 && out[n-1].acc == p.acc {
			out[n-1] = part{p.acc, new(big.Int).Add(out[n-1].amt, p.amt)}
		} else {
			out = append(out, p)
		}
	}
	return out
}

// takeUpTo splits the front of f: taken totals min(n, total(f)).
func takeUpTo(f funding, n *big.Int) (taken, rest funding) {
	left := new(big.Int).Set(n)
	i := 0
	for ; i < len(f) && left.Sign() > 0; i++ {
		if f[i].amt.Cmp(left) > 0 {
			taken = append(taken, part{f[i].acc, new(big.Int).Set(left)})
			rest = append(rest, part{f[i].acc, new(big.Int).Sub(f[i].amt, left)})
			left = new(big.Int)
			i++
			break
		}
		taken = append(taken, f[i])
		left.Sub(left, f[i].amt)
	}
	rest = append(rest, f[i:]...)
	return
}

type evalState struct {
	w     *World
	vals  map[string]Value
	bal   map[string]map[string]*big.Int // running balances
	out   Outcome
	tx    map[string]Value
	acc   map[string]map[string]Value
	quirk string
	// Grants: per account/asset the largest overdraft the script grants (nil = unbounded); used by the C01 oracle.
}

func (s *evalState) balance(acc, asset string) *big.Int {
	if m, ok := s.bal[acc]; ok {
		if b, ok := m[asset]; ok {
			return b
		}
	} else {
		s.bal[acc] = map[string]*big.Int{}
	}
	b := new(big.Int)
	if m, ok := s.w.Balances[acc]; ok {
		if x, ok := m[asset]; ok {
			b.Set(x)
		}
	}
	s.bal[acc][asset] = b
	return b
}

func (s *evalState) addBal(acc, asset string, d *big.Int) {
	if acc == "world" {
		return
	}
	b := s.balance(acc, asset)
	b.Add(b, d)
}

func (s *evalState) eval(e Expr) (Value, *refErr) {
	switch e := e.(type) {
	case LitAccount:
		return Value{T: TAccount, S: e.Addr}, nil
	case LitAsset:
		return Value{T: TAsset, S: e.Name}, nil
	case LitNumber:
		return Value{T: TNumber, N: e.N}, nil
	case LitString:
		return Value{T: TString, S: e.S}, nil
	case LitPortion:
		r, _ := ParsePortion(e.Text)
		return Value{T: TPortion, R: r}, nil
	case LitMonetary:
		a, err := s.eval(e.Asset)
		if err != nil {
			return Value{}, err
		}
		return Value{T: TMonetary, Asset: a.S, N: e.Amt}, nil
	case VarRef:
		return s.vals[e.Name], nil
	case BinOp:
		l, err := s.eval(e.L)
		if err != nil {
			return Value{}, err
		}
		r, err := s.eval(e.R)
		if err != nil {
			return Value{}, err
		}
		if l.T == TMonetary && l.Asset != r.Asset {
			return Value{}, refuse("arithmetic on different assets %s %s", l.Asset, r.Asset)
		}
		n := new(big.Int)
		if e.Op == '+' {
			n.Add(l.N, r.N)
		} else {
			n.Sub(l.N, r.N)
		}
		return Value{T: l.T, Asset: l.Asset, N: n}, nil
	}
	return Value{}, refuse("unknown expr")
}

// leftAsset: the asset of the left-most operand of a monetary expression.
func (s *evalState) leftAsset(e Expr) string {
	for {
		b, ok := e.(BinOp)
		if !ok {
			break
		}
		e = b.L
	}
	v, err := s.eval(e)
	if err != nil {
		return ""
	}
	return v.Asset
}

func (s *evalState) allotment(ps []Portion) ([]*big.Rat, *refErr) {
	out := make([]*big.Rat, len(ps))
	total := new(big.Rat)
	rem := -1
	for i, p := range ps {
		switch p.Kind {
		case PConst:
			out[i], _ = ParsePortion(p.Text)
		case PVar:
			out[i] = s.vals[p.Text].R
		case PRemaining:
			rem = i
			continue
		}
		total.Add(total, out[i])
	}
	if total.Cmp(big.NewRat(1, 1)) > 0 {
		return nil, refuse("portions sum to more than 100%%")
	}
	if rem >= 0 {
		out[rem] = new(big.Rat).Sub(big.NewRat(1, 1), total)
	}
	return out, nil
}

// Allocate: floored shares, leftover units one each to the earliest entries.
func Allocate(amt *big.Int, rs []*big.Rat) []*big.Int {
	parts := make([]*big.Int, len(rs))
	sum := new(big.Int)
	for i, r := range rs {
		x := new(big.Int).Mul(amt, r.Num())
		x.Quo(x, r.Denom())
		parts[i] = x
		sum.Add(sum, x)
	}
	left := new(big.Int).Sub(amt, sum)
	for i := 0; i < len(parts) && left.Sign() > 0; i++ {
		parts[i].Add(parts[i], big.NewInt(1))
		left.Sub(left, big.NewInt(1))
	}
	return parts
}

// source: everything the source can give now (balances are debited for it); second result = the account that
// supplies any shortfall without limit ("" if none).
func (s *evalState) source(src Source, asset string) (funding, string, *refErr) {
	switch src := src.(type) {
	case SrcAccount:
		a, _ := s.eval(src.Acc)
		acc := a.S
		if isWorldLit(src.Acc) {
			return funding{{acc, new(big.Int)}}, acc, nil
		}
		od := new(big.Int)
		unb := ""
		switch src.Od {
		case OdUnbounded:
			unb = acc
		case OdSpecific:
			v, err := s.eval(src.Specific)
			if err != nil {
				return nil, "", err
			}
			if v.Asset != asset {
				return nil, "", refuse("overdraft asset %s on a %s send", v.Asset, asset)
			}
			od = v.N
		}
		avail := new(big.Int).Add(s.balance(acc, asset), od)
		if avail.Sign() < 0 {
			avail = new(big.Int)
		}
		s.addBal(acc, asset, new(big.Int).Neg(avail))
		return funding{{acc, avail}}, unb, nil
	case SrcMaxed:
		f, unb, err := s.source(src.Src, asset)
		if err != nil {
			return nil, "", err
		}
		mx, err := s.eval(src.Max)
		if err != nil {
			return nil, "", err
		}
		if mx.N.Sign() < 0 {
			return nil, "", refuse("negative max")
		}
		if mx.Asset != asset {
			return nil, "", refuse("max asset %s on a %s send", mx.Asset, asset)
		}
		taken, rest := takeUpTo(f, mx.N)
		s.repay(rest, asset)
		if unb != "" {
			missing := new(big.Int).Sub(mx.N, taken.total())
			s.addBal(unb, asset, new(big.Int).Neg(missing))
			taken = concat(taken, funding{{unb, missing}})
		}
		return taken, "", nil
	case SrcInOrder:
		var all funding
		unb := ""
		for _, x := range src.Srcs {
			f, u, err := s.source(x, asset)
			if err != nil {
				return nil, "", err
			}
			unb = u
			all = concat(all, f)
		}
		return all, unb, nil
	}
	return nil, "", refuse("bad source")
}

func (s *evalState) repay(f funding, asset string) {
	for _, p := range f {
		s.addBal(p.acc, asset, p.amt)
	}
}

// take exactly n from a source result.
func (s *evalState) takeExact(f funding, unb string, n *big.Int, asset string) (funding, *refErr) {
	if n.Sign() < 0 {
		return nil, anyErr("negative amount")
	}
	taken, rest := takeUpTo(f, n)
	got := taken.total()
	if got.Cmp(n) < 0 {
		if unb == "" {
			return nil, insufficient("need %s got %s", n, got)
		}
		missing := new(big.Int).Sub(n, got)
		s.addBal(unb, asset, new(big.Int).Neg(missing))
		taken = concat(taken, funding{{unb, missing}})
	}
	s.repay(rest, asset)
	return taken, nil
}

type leaf struct {
	kept bool
	acc  string
	amt  *big.Int
}

func (s *evalState) kod(k KeptOrDest, amt *big.Int, asset string) ([]leaf, *refErr) {
	if k.Kept {
		return []leaf{{kept: true, amt: amt}}, nil
	}
	return s.dest(k.To, amt, asset)
}

func (s *evalState) dest(d Dest, amt *big.Int, asset string) ([]leaf, *refErr) {
	switch d := d.(type) {
	case DestAccount:
		a, _ := s.eval(d.Acc)
		return []leaf{{acc: a.S, amt: amt}}, nil
	case DestAllotment:
		rs, err := s.allotment(d.Portions)
		if err != nil {
			return nil, err
		}
		var out []leaf
		for i, share := range Allocate(amt, rs) {
			ls, err := s.kod(d.Dests[i], share, asset)
			if err != nil {
				return nil, err
			}
			out = append(out, ls...)
		}
		return out, nil
	case DestInOrder:
		left := new(big.Int).Set(amt)
		pool := new(big.Int).Set(amt) // what the VM still offers: kept entries are not deducted from it
		var out []leaf
		for i := range d.Dests {
			mx, err := s.eval(d.Maxes[i])
			if err != nil {
				return nil, err
			}
			if mx.N.Sign() < 0 {
				return nil, refuse("negative destination max")
			}
			if mx.Asset != asset {
				return nil, refuse("destination max asset %s on a %s send", mx.Asset, asset)
			}
			a := new(big.Int).Set(mx.N)
			if a.Cmp(left) > 0 {
				a.Set(left)
			}
			if mx.N.Cmp(left) > 0 && pool.Cmp(left) > 0 {
				s.quirk = "inorder-kept"
			}
			ls, err := s.kod(d.Dests[i], a, asset)
			if err != nil {
				return nil, err
			}
			for _, l := range ls { // only what actually left the pool: nested kept parts stay in it as well
				if !l.kept {
					pool.Sub(pool, l.amt)
				}
			}
			out = append(out, ls...)
			left = new(big.Int).Sub(left, a)
		}
		ls, err := s.kod(d.Remaining, left, asset)
		if err != nil {
			return nil, err
		}
		return append(out, ls...), nil
	}
	return nil, refuse("bad destination")
}

func (s *evalState) send(st Send) *refErr {
	var f funding
	var asset string
	if st.Mon == nil {
		a, err := s.eval(st.AllAsset)
		if err != nil {
			return err
		}
		asset = a.S
		f, _, err = s.source(st.Src, asset)
		if err != nil {
			return err
		}
	} else if al, ok := st.Src.(SrcAllotment); ok {
		amt, err := s.eval(st.Mon)
		if err != nil {
			return err
		}
		asset = amt.Asset
		rs, err := s.allotment(al.Portions)
		if err != nil {
			return err
		}
		if amt.N.Sign() < 0 {
			return anyErr("negative amount")
		}
		for i, share := range Allocate(amt.N, rs) {
			fi, unb, err := s.source(al.Srcs[i], asset)
			if err != nil {
				return err
			}
			ti, err := s.takeExact(fi, unb, share, asset)
			if err != nil {
				return err
			}
			f = concat(f, ti)
		}
	} else {
		asset = s.leftAsset(st.Mon)
		fs, unb, err := s.source(st.Src, asset)
		if err != nil {
			return err
		}
		amt, err := s.eval(st.Mon)
		if err != nil {
			return err
		}
		f, err = s.takeExact(fs, unb, amt.N, asset)
		if err != nil {
			return err
		}
	}
	leaves, err := s.dest(st.Dst, f.total(), asset)
	if err != nil {
		return err
	}
	for _, l := range leaves {
		if l.kept {
			continue
		}
		var taken funding
		taken, f = takeUpTo(f, l.amt)
		for _, p := range taken {
			s.out.Postings = append(s.out.Postings, Posting{Src: p.acc, Dst: l.acc, Asset: asset, Amt: p.amt})
		}
		s.addBal(l.acc, asset, l.amt)
	}
	s.repay(f, asset)
	return nil
}

// Eval runs the reference semantics.
func Eval(p *Program, w *World) (out Outcome) {
	st := &static{vt: map[string]Type{}}
	if err := st.check(p); err != nil {
		return Outcome{Class: err.class, Why: "static: " + err.why}
	}
	s := &evalState{w: w, vals: map[string]Value{}, bal: map[string]map[string]*big.Int{}, tx: map[string]Value{}, acc: map[string]map[string]Value{}}
	fail := func(e *refErr) Outcome { return Outcome{Class: e.class, Why: e.why, Quirk: s.quirk} }
	// plain variables first (as supplied), then looked-up ones in declaration order
	nplain := 0
	for _, v := range p.Vars {
		if v.Origin != OrPlain {
			continue
		}
		nplain++
		raw, ok := w.Vars[v.Name]
		if !ok {
			return fail(refuse("missing variable $%s", v.Name))
		}
		val, err := parseValue(v.Type, raw)
		if err != nil {
			return fail(err)
		}
		s.vals[v.Name] = val
	}
	if len(w.Vars) != nplain {
		return fail(refuse("extraneous variables"))
	}
	for _, v := range p.Vars {
		switch v.Origin {
		case OrMeta:
			a, err := s.eval(v.Acc)
			if err != nil {
				return fail(err)
			}
			raw, ok := w.Meta[a.S][v.Key]
			if !ok {
				return fail(refuse("missing metadata %s on %s", v.Key, a.S))
			}
			val, err := parseValue(v.Type, raw)
			if err != nil {
				return fail(err)
			}
			s.vals[v.Name] = val
		case OrBalance:
			a, err := s.eval(v.Acc)
			if err != nil {
				return fail(err)
			}
			as, err := s.eval(v.Asset)
			if err != nil {
				return fail(err)
			}
			b := new(big.Int)
			if m, ok := w.Balances[a.S]; ok && m[as.S] != nil {
				b.Set(m[as.S])
			}
			s.vals[v.Name] = Value{T: TMonetary, Asset: as.S, N: b}
		}
	}
	for _, v := range p.Vars { // a negative balance() is refused after all lookups
		if v.Origin == OrBalance && s.vals[v.Name].N.Sign() < 0 {
			return fail(refuse("negative balance variable $%s", v.Name))
		}
	}
	for _, stm := range p.Stmts {
		switch stm := stm.(type) {
		case Send:
			if err := s.send(stm); err != nil {
				return fail(err)
			}
		case SetTxMeta:
			v, err := s.eval(stm.Val)
			if err != nil {
				return fail(err)
			}
			s.tx[stm.Key] = v
		case SetAccountMeta:
			v, err := s.eval(stm.Val)
			if err != nil {
				return fail(err)
			}
			a, _ := s.eval(stm.Acc)
			if s.acc[a.S] == nil {
				s.acc[a.S] = map[string]Value{}
			}
			s.acc[a.S][stm.Key] = v
		case Save:
			a, _ := s.eval(stm.Acc)
			if stm.Mon != nil {
				v, err := s.eval(stm.Mon)
				if err != nil {
					return fail(err)
				}
				if v.N.Sign() < 0 {
					return fail(anyErr("save of a negative amount")) // cannot mean "give the account more to spend"
				}
				s.addBal(a.S, v.Asset, new(big.Int).Neg(v.N))
			} else {
				as, _ := s.eval(stm.AllAsset)
				if b := s.balance(a.S, as.S); b.Sign() > 0 {
					b.SetInt64(0)
				}
			}
		case Fail:
			return fail(refuse("fail statement"))
		case Print:
			if _, err := s.eval(stm.E); err != nil {
				return fail(err)
			}
		}
	}
	s.out.Class = ClsOK
	s.out.Quirk = s.quirk
	s.out.TxMeta = map[string]string{}
	for k, v := range s.tx {
		s.out.TxMeta[k] = v.MetaString()
	}
	for k, v := range w.TxMeta {
		if _, dup := s.out.TxMeta[k]; dup {
			return fail(refuse("metadata override %s", k))
		}
		s.out.TxMeta[k] = v
	}
	s.out.AccMeta = map[string]map[string]string{}
	for a, m := range s.acc {
		s.out.AccMeta[a] = map[string]string{}
		for k, v := range m {
			s.out.AccMeta[a][k] = v.MetaString()
		}
	}
	return s.out
}

// Normalize drops zero-amount postings and sums consecutive postings with identical (src,dst,asset).
func Normalize(ps []Posting) []Posting {
	var out []Posting
	for _, p := range ps {
		if p.Amt.Sign() == 0 {
			continue
		}
		if n := len(out); n > 0 && out[n-1].Src == p.Src && out[n-1].Dst == p.Dst && out[n-1].Asset == p.Asset {
			out[n-1].Amt = new(big.Int).Add(out[n-1].Amt, p.Amt)
			continue
		}
		out = append(out, Posting{p.Src, p.Dst, p.Asset, new(big.Int).Set(p.Amt)})
	}
	return out
}

func PostingsString(ps []Posting) string {
	ss := make([]string, len(ps))
	for i, p := range ps {
		ss[i] = p.String()
	}
	return strings.Join(ss, "; ")
}

func MetaString(m map[string]string) string {
	ks := make([]string, 0, len(m))
	for k := range m {
		ks = append(ks, k)
	}
	sort.Strings(ks)
	var sb strings.Builder
	for _, k := range ks {
		fmt.Fprintf(&sb, "%s=%s;", k, m[k])
	}
	return sb.String()
}

// ------------------------------------------------------------------------------------------------
// Grants: the overdraft the script explicitly grants, per (account, asset) — the largest bound written for it;
// unbounded = nil entry with ok=true in Unbounded. Evaluated with the same variable binding.

type Grants struct {
	Bounded   map[string]*big.Int // key account|asset
	Unbounded map[string]bool
}

func ComputeGrants(p *Program, w *World) (g Grants, ok bool) {
	st := &static{vt: map[string]Type{}}
	if err := st.check(p); err != nil {
		return g, false
	}
	// reuse Eval's variable binding by running Eval on a program without statements that can fail
	s := &evalState{w: w, vals: map[string]Value{}, bal: map[string]map[string]*big.Int{}}
	for _, v := range p.Vars {
		switch v.Origin {
		case OrPlain:
			val, err := parseValue(v.Type, w.Vars[v.Name])
			if err != nil {
				return g, false
			}
			s.vals[v.Name] = val
		}
	}
	for _, v := range p.Vars {
		switch v.Origin {
		case OrMeta:
			a, _ := s.eval(v.Acc)
			val, err := parseValue(v.Type, w.Meta[a.S][v.Key])
			if err != nil {
				return g, false
			}
			s.vals[v.Name] = val
		case OrBalance:
			a, _ := s.eval(v.Acc)
			as, _ := s.eval(v.Asset)
			b := new(big.Int)
			if m, ok := w.Balances[a.S]; ok && m[as.S] != nil {
				b.Set(m[as.S])
			}
			s.vals[v.Name] = Value{T: TMonetary, Asset: as.S, N: b}
		}
	}
	g = Grants{Bounded: map[string]*big.Int{}, Unbounded: map[string]bool{}}
	var walk func(src Source, asset string)
	walk = func(src Source, asset string) {
		switch src := src.(type) {
		case SrcAccount:
			a, _ := s.eval(src.Acc)
			k := a.S + "|" + asset
			switch src.Od {
			case OdUnbounded:
				g.Unbounded[k] = true
			case OdSpecific:
				v, err := s.eval(src.Specific)
				if err == nil && v.Asset == asset {
					if cur, ok := g.Bounded[k]; !ok || cur.Cmp(v.N) < 0 {
						g.Bounded[k] = v.N
					}
				}
			}
		case SrcMaxed:
			walk(src.Src, asset)
		case SrcInOrder:
			for _, x := range src.Srcs {
				walk(x, asset)
			}
		case SrcAllotment:
			for _, x := range src.Srcs {
				walk(x, asset)
			}
		}
	}
	for _, stm := range p.Stmts {
		if sd, ok := stm.(Send); ok {
			var asset string
			if sd.Mon != nil {
				asset = s.leftAsset(sd.Mon)
			} else {
				a, _ := s.eval(sd.AllAsset)
				asset = a.S
			}
			walk(sd.Src, asset)
		}
	}
	return g, true
}
