package numgen

import (
	"fmt"
	"math/big"
	mrand "math/rand"

	vc "github.com/formancehq/ledger/internal/verif/vcommon"
)

// ------------------------------------------------------------------------------------------------
// Generator. Well-formed by construction (static rules respected) unless Break is set, in which case exactly
// one curated static rule is violated.

type GenCfg struct {
	Accounts   []string // non-world account pool
	Assets     []string
	MaxSends   int
	MaxDepth   int
	Disjoint   bool // every source leaf / destination leaf gets its own account (C03 attribution)
	OtherStmts bool // set_tx_meta / set_account_meta / save / fail
	Vars       bool
	HugePct    int // % of amounts drawn from the >64-bit set
	NegBalPct  int // % of balances negative
	Break      bool
	NoWorld    bool
	Wild       bool // C12: meaningless-but-valid constructs allowed
	SavePct    int  // % of statement slots that hold a save with an arithmetic amount aimed at the balance floor (C01)
}

var DefaultAccounts = []string{"alice", "bob", "users:001", "bank-eu:fees", "treasury", "m_1"}
var DefaultAssets = []string{"USD", "EUR/2", "COIN"}

func FullCfg() GenCfg {
	return GenCfg{Accounts: DefaultAccounts, Assets: DefaultAssets, MaxSends: 3, MaxDepth: 4, OtherStmts: true, Vars: true, HugePct: 6, NegBalPct: 8}
}

// OverdrawCfg: few accounts, one dominant asset, several sends -> collisions on the same balances (C01).
func OverdrawCfg() GenCfg {
	return GenCfg{Accounts: []string{"alice", "bob", "users:001"}, Assets: []string{"USD", "EUR/2"}, MaxSends: 4, MaxDepth: 3, OtherStmts: true, Vars: true, HugePct: 4, NegBalPct: 15, SavePct: 20}
}

// SingleCfg: one send, disjoint accounts per leaf (C03).
func SingleCfg() GenCfg {
	return GenCfg{Accounts: nil, Assets: DefaultAssets, MaxSends: 1, MaxDepth: 4, Disjoint: true, Vars: true, HugePct: 8, NegBalPct: 5}
}

type Case struct {
	Prog    *Program
	World   *World
	Broken  string         // rule deliberately violated ("" = well-formed)
	Feature map[string]int // grammar alternatives used
}

type gen struct {
	r         *vc.Rand
	cfg       GenCfg
	w         *World
	prog      *Program
	byType    map[Type][]string // declared variable names by type
	val       map[string]Value
	feat      map[string]int
	nextAc    int
	nvar      int
	worldUsed bool
}

var smallAmts = []int64{0, 1, 2, 3, 7, 10, 99, 100}

func hugeAmts() []*big.Int {
	a := new(big.Int).SetUint64(1<<63 - 1)
	b := new(big.Int).Lsh(big.NewInt(1), 64)
	c := new(big.Int).Exp(big.NewInt(10), big.NewInt(30), nil)
	d := new(big.Int).Add(b, big.NewInt(5))
	return []*big.Int{a, b, c, d}
}

func (g *gen) amount() *big.Int {
	if g.r.Intn(100) < g.cfg.HugePct {
		return new(big.Int).Set(vc.Pick(g.r, hugeAmts()))
	}
	switch g.r.Weighted(4, 5, 1) {
	case 0:
		return big.NewInt(vc.Pick(g.r, smallAmts))
	case 1:
		return big.NewInt(int64(g.r.Intn(200)))
	}
	return big.NewInt(int64(g.r.Intn(100000)))
}

func (g *gen) use(f string) { g.feat[f]++ }

func (g *gen) freshAccount() string {
	if g.cfg.Disjoint {
		a := fmt.Sprintf("n%d", g.nextAc)
		g.nextAc++
		g.giveBalances(a)
		return a
	}
	return vc.Pick(g.r, g.cfg.Accounts)
}

func (g *gen) giveBalances(a string) {
	for _, as := range g.cfg.Assets {
		if g.r.Chance(1, 4) {
			continue
		}
		b := g.amount()
		if g.r.Chance(1, 2) {
			b = big.NewInt(int64(g.r.Intn(1000)))
		}
		if g.r.Intn(100) < g.cfg.NegBalPct {
			b = new(big.Int).Neg(b)
		}
		if g.w.Balances[a] == nil {
			g.w.Balances[a] = map[string]*big.Int{}
		}
		g.w.Balances[a][as] = b
	}
}

// accountExpr: an expression of type account (never world).
func (g *gen) accountExpr() Expr {
	if !g.cfg.Disjoint && len(g.byType[TAccount]) > 0 && g.r.Chance(1, 3) {
		g.use("expr_var_account")
		return VarRef{vc.Pick(g.r, g.byType[TAccount])}
	}
	if g.cfg.Disjoint && g.cfg.Vars && g.r.Chance(1, 5) {
		// a fresh variable bound to a fresh account
		a := g.freshAccount()
		name := g.declPlain(TAccount, a)
		g.use("expr_var_account")
		return VarRef{name}
	}
	g.use("expr_lit_account")
	return LitAccount{g.freshAccount()}
}

func (g *gen) newName(prefix string) string {
	g.nvar++
	return fmt.Sprintf("%s%d", prefix, g.nvar)
}

func (g *gen) declPlain(t Type, raw string) string {
	name := g.newName(map[Type]string{TAccount: "acc", TAsset: "ass", TNumber: "num", TString: "str", TMonetary: "mon", TPortion: "por"}[t])
	g.prog.Vars = append(g.prog.Vars, VarDecl{Type: t, Name: name})
	g.w.Vars[name] = raw
	v, _ := parseValue(t, raw)
	g.val[name] = v
	g.byType[t] = append(g.byType[t], name)
	g.use("var_plain_" + t.String())
	return name
}

func (g *gen) declMeta(t Type, raw string) string {
	name := g.newName("mv")
	acc := "metaholder"
	if len(g.cfg.Accounts) > 0 {
		acc = vc.Pick(g.r, g.cfg.Accounts)
	}
	key := vc.Pick(g.r, []string{"k1", "route", "fee_rate", "dest account"})
	if g.w.Meta[acc] == nil {
		g.w.Meta[acc] = map[string]string{}
	}
	if old, ok := g.w.Meta[acc][key]; ok {
		raw = old // keep one value per key; type may then mismatch -> the reference decides
		if _, err := parseValue(t, raw); err != nil {
			return ""
		}
	}
	g.w.Meta[acc][key] = raw
	var accE Expr = LitAccount{acc}
	g.prog.Vars = append(g.prog.Vars, VarDecl{Type: t, Name: name, Origin: OrMeta, Acc: accE, Key: key})
	v, _ := parseValue(t, raw)
	g.val[name] = v
	g.byType[t] = append(g.byType[t], name)
	g.use("var_meta_" + t.String())
	return name
}

func (g *gen) monetaryLit(asset string, amt *big.Int) Expr {
	if g.cfg.Wild && g.r.Chance(1, 15) {
		asset = vc.Pick(g.r, g.cfg.Assets)
	}
	if len(g.byType[TAsset]) > 0 && g.r.Chance(1, 6) {
		for _, n := range g.byType[TAsset] {
			if g.val[n].S == asset {
				g.use("expr_monetary_assetvar")
				return LitMonetary{Asset: VarRef{n}, Amt: amt}
			}
		}
	}
	g.use("expr_lit_monetary")
	return LitMonetary{Asset: LitAsset{asset}, Amt: amt}
}

// monetaryExpr of the given asset; about `around` when hint != nil.
func (g *gen) monetaryExpr(asset string, depth int) Expr {
	if depth < 2 {
		switch g.r.Weighted(70, 12, 12, 6) {
		case 1:
			var cands []string
			for _, n := range g.byType[TMonetary] {
				if g.val[n].Asset == asset {
					cands = append(cands, n)
				}
			}
			if len(cands) > 0 {
				g.use("expr_var_monetary")
				return VarRef{vc.Pick(g.r, cands)}
			}
		case 2:
			g.use("expr_monetary_add")
			return BinOp{'+', g.monetaryExpr(asset, depth+1), g.monetaryExpr(asset, depth+1)}
		case 3:
			g.use("expr_monetary_sub")
			// mostly non-negative: big - small
			a := g.amount()
			b := new(big.Int).Set(a)
			if b.Sign() > 0 && g.r.Chance(9, 10) {
				b = new(big.Int).Rand(randSrc(g.r), new(big.Int).Add(a, big.NewInt(1)))
			} else {
				b.Add(b, big.NewInt(int64(g.r.Intn(5))))
			}
			return BinOp{'-', g.monetaryLit(asset, a), g.monetaryLit(asset, b)}
		}
	}
	return g.monetaryLit(asset, g.amount())
}

func (g *gen) srcAccount(asset string, allowUnb bool, used map[string]bool, worldOK bool) Source {
	if worldOK && allowUnb && !g.cfg.NoWorld && g.r.Chance(1, 8) && !used["@world"] && !(g.cfg.Disjoint && g.worldUsed) {
		used["@world"] = true
		g.worldUsed = true
		g.use("src_world")
		return SrcAccount{Acc: LitAccount{"world"}}
	}
	var acc Expr
	for try := 0; ; try++ {
		acc = g.accountExpr()
		if !used[ExprString(acc)] || try > 20 {
			break
		}
	}
	if used[ExprString(acc)] {
		// pool exhausted inside this block: fall back to a maxed wrapper (which resets the emptied set)
		g.use("src_maxed")
		return SrcMaxed{Max: g.monetaryExpr(asset, 1), Src: SrcAccount{Acc: acc}}
	}
	used[ExprString(acc)] = true
	w := []int{60, 20, 20}
	if !allowUnb {
		w[2] = 0
	}
	switch g.r.Weighted(w...) {
	case 1:
		g.use("src_overdraft_bounded")
		return SrcAccount{Acc: acc, Od: OdSpecific, Specific: g.monetaryExpr(asset, 1)}
	case 2:
		g.use("src_overdraft_unbounded")
		return SrcAccount{Acc: acc, Od: OdUnbounded}
	}
	g.use("src_account")
	return SrcAccount{Acc: acc}
}

func (g *gen) source(asset string, depth int, allowUnb bool, used map[string]bool) Source {
	w := []int{5, 2, 2}
	if depth >= g.cfg.MaxDepth {
		w = []int{1, 0, 0}
	}
	switch g.r.Weighted(w...) {
	case 1:
		g.use("src_maxed")
		return SrcMaxed{Max: g.monetaryExpr(asset, 1), Src: g.source(asset, depth+1, true, map[string]bool{})}
	case 2:
		g.use("src_inorder")
		n := g.r.Range(1, 3)
		var xs []Source
		for i := 0; i < n; i++ {
			xs = append(xs, g.source(asset, depth+1, allowUnb && i == n-1, used))
		}
		return SrcInOrder{xs}
	}
	return g.srcAccount(asset, allowUnb, used, true)
}

// portions: n entries whose constants respect the static rules.
func (g *gen) portions(n int) []Portion {
	ps := make([]Portion, n)
	style := g.r.Weighted(4, 3, 3, 2) // exact fractions, exact percents, with remaining, with variable(+remaining)
	if n == 1 && style >= 2 {
		style = g.r.Intn(2)
	}
	switch style {
	case 0:
		d := vc.Pick(g.r, []int{1, 2, 3, 4, 5, 6, 7, 8, 10, 12, 100})
		ks := splitInt(g.r, d, n)
		for i, k := range ks {
			ps[i] = Portion{PConst, fmt.Sprintf("%d/%d", k, d)}
		}
		g.use("portion_fraction")
	case 1:
		ks := splitInt(g.r, 1000, n)
		for i, k := range ks {
			if k%10 == 0 {
				ps[i] = Portion{PConst, fmt.Sprintf("%d%%", k/10)}
			} else {
				ps[i] = Portion{PConst, fmt.Sprintf("%d.%d%%", k/10, k%10)}
			}
		}
		g.use("portion_percent")
	case 2:
		d := vc.Pick(g.r, []int{2, 3, 4, 5, 7, 8, 10, 100})
		ks := splitInt(g.r, d, n) // the remaining entry's own share is simply not written
		rem := g.r.Intn(n)
		if ks[rem] == 0 { // known portions would already be 100%
			for i := range ks {
				if ks[i] > 0 && i != rem {
					ks[i]--
					break
				}
			}
		}
		for i, k := range ks {
			if i == rem {
				ps[i] = Portion{Kind: PRemaining}
			} else if g.r.Bool() && (100*k)%d == 0 {
				ps[i] = Portion{PConst, fmt.Sprintf("%d%%", 100*k/d)}
			} else {
				ps[i] = Portion{PConst, fmt.Sprintf("%d/%d", k, d)}
			}
		}
		g.use("portion_remaining")
	case 3:
		// variable portions need `remaining`; constants must sum to < 1
		d := 10
		ks := splitInt(g.r, d, n+1) // last share is slack
		rem := g.r.Intn(n)
		nv := 0
		for i := 0; i < n; i++ {
			if i == rem {
				ps[i] = Portion{Kind: PRemaining}
				continue
			}
			if nv == 0 || g.r.Bool() {
				var name string
				raw := fmt.Sprintf("%d/%d", ks[i], d)
				if g.r.Chance(1, 12) {
					raw = vc.Pick(g.r, []string{"1/1", "100%", "2/3", "0%"}) // may push the sum over 100%
				}
				if g.r.Chance(1, 4) {
					name = g.declMeta(TPortion, raw)
				}
				if name == "" {
					name = g.declPlain(TPortion, raw)
				}
				ps[i] = Portion{PVar, name}
				nv++
			} else {
				ps[i] = Portion{PConst, fmt.Sprintf("%d/%d", ks[i], d)}
			}
		}
		// constants must stay below 100%
		tot := 0
		for i := 0; i < n; i++ {
			if ps[i].Kind == PConst {
				tot += ks[i]
			}
		}
		if tot >= d {
			for i := 0; i < n; i++ {
				if ps[i].Kind == PConst {
					ps[i] = Portion{PConst, "0/10"}
				}
			}
		}
		g.use("portion_variable")
	}
	return ps
}

func splitInt(r *vc.Rand, total, n int) []int {
	ks := make([]int, n)
	left := total
	for i := 0; i < n-1; i++ {
		k := 0
		if left > 0 {
			k = r.Intn(left + 1)
			if r.Chance(2, 3) {
				k = r.Intn(left/2 + 1)
			}
		}
		ks[i] = k
		left -= k
	}
	ks[n-1] = left
	r.Shuffle(n, func(i, j int) { ks[i], ks[j] = ks[j], ks[i] })
	return ks
}

func (g *gen) kod(asset string, depth int) KeptOrDest {
	if g.r.Chance(1, 5) {
		g.use("dest_kept")
		return KeptOrDest{Kept: true}
	}
	return KeptOrDest{To: g.dest(asset, depth)}
}

func (g *gen) dest(asset string, depth int) Dest {
	w := []int{5, 2, 3}
	if depth >= g.cfg.MaxDepth {
		w = []int{1, 0, 0}
	}
	switch g.r.Weighted(w...) {
	case 1:
		g.use("dest_inorder")
		n := g.r.Range(1, 3)
		d := DestInOrder{}
		for i := 0; i < n; i++ {
			d.Maxes = append(d.Maxes, g.monetaryExpr(asset, 1))
			d.Dests = append(d.Dests, g.kod(asset, depth+1))
		}
		d.Remaining = g.kod(asset, depth+1)
		return d
	case 2:
		g.use("dest_allotment")
		n := g.r.Range(1, 4)
		d := DestAllotment{Portions: g.portions(n)}
		for i := 0; i < n; i++ {
			d.Dests = append(d.Dests, g.kod(asset, depth+1))
		}
		return d
	}
	g.use("dest_account")
	if !g.cfg.NoWorld && !g.cfg.Disjoint && g.r.Chance(1, 12) {
		return DestAccount{LitAccount{"world"}}
	}
	return DestAccount{g.accountExpr()}
}

func (g *gen) send(asset string) Send {
	s := Send{DestFirst: g.r.Chance(1, 4)}
	isAll := g.r.Chance(1, 6)
	if isAll {
		g.use("send_all")
		s.AllAsset = LitAsset{asset}
		if len(g.byType[TAsset]) > 0 && g.r.Chance(1, 4) {
			for _, n := range g.byType[TAsset] {
				if g.val[n].S == asset {
					s.AllAsset = VarRef{n}
				}
			}
		}
		s.Src = g.source(asset, 1, false, map[string]bool{})
	} else {
		g.use("send_monetary")
		s.Mon = g.monetaryExpr(asset, 0)
		if g.r.Chance(1, 5) {
			g.use("src_allotment")
			n := g.r.Range(1, 3)
			al := SrcAllotment{Portions: g.portions(n)}
			for i := 0; i < n; i++ {
				al.Srcs = append(al.Srcs, g.source(asset, 2, true, map[string]bool{}))
			}
			s.Src = al
		} else {
			s.Src = g.source(asset, 1, true, map[string]bool{})
		}
	}
	if s.DestFirst {
		g.use("send_destfirst")
	}
	s.Dst = g.dest(asset, 1)
	return s
}

func (g *gen) anyExpr() Expr {
	switch g.r.Intn(7) {
	case 0:
		return LitAccount{vc.Pick(g.r, g.cfg.Accounts)}
	case 1:
		return LitAsset{vc.Pick(g.r, g.cfg.Assets)}
	case 2:
		g.use("expr_lit_number")
		if len(g.byType[TNumber]) > 0 && g.r.Bool() {
			g.use("expr_number_arith")
			return BinOp{vc.Pick(g.r, []byte{'+', '-'}), VarRef{g.byType[TNumber][0]}, LitNumber{g.amount()}}
		}
		if g.r.Chance(1, 3) {
			g.use("expr_number_arith")
			return BinOp{vc.Pick(g.r, []byte{'+', '-'}), LitNumber{g.amount()}, LitNumber{g.amount()}}
		}
		return LitNumber{g.amount()}
	case 3:
		g.use("expr_lit_string")
		if len(g.byType[TString]) > 0 && g.r.Bool() {
			return VarRef{g.byType[TString][0]}
		}
		return LitString{vc.Pick(g.r, []string{"", "hello world", "a-b_c 9", "x"})}
	case 4:
		g.use("expr_lit_portion")
		if len(g.byType[TPortion]) > 0 && g.r.Bool() {
			return VarRef{vc.Pick(g.r, g.byType[TPortion])}
		}
		return LitPortion{vc.Pick(g.r, []string{"1/3", "50%", "12.5%", "4/8", "0%", "100%", "2 / 6"})}
	case 5:
		return g.monetaryExpr(vc.Pick(g.r, g.cfg.Assets), 0)
	}
	if len(g.byType[TAccount]) > 0 {
		return VarRef{vc.Pick(g.r, g.byType[TAccount])}
	}
	return LitAccount{vc.Pick(g.r, g.cfg.Accounts)}
}

// Generate one case.
func Generate(r *vc.Rand, cfg GenCfg) *Case {
	g := &gen{r: r, cfg: cfg, prog: &Program{}, byType: map[Type][]string{}, val: map[string]Value{}, feat: map[string]int{},
		w: &World{Vars: map[string]string{}, Balances: map[string]map[string]*big.Int{}, Meta: map[string]map[string]string{}, TxMeta: map[string]string{}}}

	mainAsset := vc.Pick(r, cfg.Assets)
	if cfg.Vars && !cfg.Disjoint {
		for i := r.Intn(3); i > 0; i-- {
			if cfg.Wild && r.Chance(1, 5) {
				g.declPlain(TAccount, "world")
				continue
			}
			g.declPlain(TAccount, vc.Pick(r, cfg.Accounts))
		}
		if r.Chance(1, 4) {
			g.declMeta(TAccount, vc.Pick(r, cfg.Accounts))
		}
	}
	if cfg.Vars {
		if r.Chance(1, 3) {
			g.declPlain(TAsset, mainAsset)
		}
		for i := r.Intn(3); i > 0; i-- {
			a := mainAsset
			if r.Chance(1, 4) {
				a = vc.Pick(r, cfg.Assets)
			}
			g.declPlain(TMonetary, a+" "+g.amount().String())
		}
		if r.Chance(1, 6) {
			g.declMeta(TMonetary, mainAsset+" "+g.amount().String())
		}
		if r.Chance(1, 4) {
			g.declPlain(TNumber, g.amount().String())
		}
		if r.Chance(1, 4) {
			g.declPlain(TString, vc.Pick(r, []string{"", "abc", "été", "a \"quoted\" one", "line\nbreak"}))
		}
	}
	// balances
	for _, a := range cfg.Accounts {
		g.giveBalances(a)
	}
	// balance() variables (after balances exist)
	if cfg.Vars && len(cfg.Accounts) > 0 && (r.Chance(1, 4) || cfg.Wild && r.Bool()) {
		n := 1
		if r.Chance(1, 4) || cfg.Wild {
			n = r.Range(2, 3)
		}
		for i := 0; i < n; i++ {
			acc := vc.Pick(r, cfg.Accounts)
			as := mainAsset
			if i == 1 && r.Bool() {
				as = vc.Pick(r, cfg.Assets)
			}
			name := g.newName("bal")
			g.prog.Vars = append(g.prog.Vars, VarDecl{Type: TMonetary, Name: name, Origin: OrBalance, Acc: LitAccount{acc}, Asset: LitAsset{as}})
			b := new(big.Int)
			if m, ok := g.w.Balances[acc]; ok && m[as] != nil {
				b.Set(m[as])
			}
			g.val[name] = Value{T: TMonetary, Asset: as, N: b}
			if b.Sign() >= 0 {
				g.byType[TMonetary] = append(g.byType[TMonetary], name)
			}
			g.use("var_balance")
		}
	}

	nsend := r.Range(1, cfg.MaxSends)
	for i := 0; i < nsend; i++ {
		asset := mainAsset
		if r.Chance(1, 4) {
			asset = vc.Pick(r, cfg.Assets)
		}
		if cfg.OtherStmts && r.Chance(1, 6) {
			g.otherStmt(asset)
		}
		if cfg.SavePct > 0 && i > 0 && r.Intn(100) < cfg.SavePct {
			g.saveStmt(asset) // between two sends on the same few accounts
		}
		g.prog.Stmts = append(g.prog.Stmts, g.send(asset))
	}
	if cfg.OtherStmts {
		for i := r.Intn(3); i > 0; i-- {
			if r.Bool() {
				g.otherStmt(mainAsset)
			}
		}
		if r.Chance(1, 30) {
			g.use("stmt_fail")
			pos := r.Intn(len(g.prog.Stmts) + 1)
			g.prog.Stmts = append(g.prog.Stmts[:pos], append([]Stmt{Fail{}}, g.prog.Stmts[pos:]...)...)
		}
		if r.Chance(1, 10) {
			g.w.TxMeta["origin"] = "request"
			if r.Chance(1, 3) {
				g.w.TxMeta["k_tx"] = "from request" // may collide with set_tx_meta("k_tx", ...)
			}
		}
	}
	c := &Case{Prog: g.prog, World: g.w, Feature: g.feat}
	if cfg.Break {
		c.Broken = g.breakRule()
	}
	return c
}

func (g *gen) otherStmt(asset string) {
	switch g.r.Weighted(4, 3, 3) {
	case 0:
		g.use("stmt_set_tx_meta")
		g.prog.Stmts = append(g.prog.Stmts, SetTxMeta{Key: vc.Pick(g.r, []string{"k_tx", "note", "a b"}), Val: g.anyExpr()})
	case 1:
		g.use("stmt_set_account_meta")
		g.prog.Stmts = append(g.prog.Stmts, SetAccountMeta{Acc: g.accountExpr(), Key: vc.Pick(g.r, []string{"k1", "tier"}), Val: g.anyExpr()})
	case 2:
		g.saveStmt(asset)
	}
}

func (g *gen) saveStmt(asset string) {
	{
		// save only from accounts that are a source of some send for this asset (else the statement is meaningless: C12 covers that)
		acc := g.someSourceAccount(asset)
		if g.cfg.Wild && g.r.Bool() {
			acc = LitAccount{vc.Pick(g.r, append([]string{"world", "nobody"}, g.cfg.Accounts...))}
		}
		if acc == nil {
			return
		}
		if g.r.Chance(1, 3) {
			g.use("stmt_save_all")
			g.prog.Stmts = append(g.prog.Stmts, Save{AllAsset: LitAsset{asset}, Acc: acc})
		} else {
			g.use("stmt_save")
			var mon Expr = g.monetaryLit(asset, g.amount())
			if g.r.Chance(1, 2) { // the amount of a save is an expression like any other (variable, sum, difference)
				mon = g.monetaryExpr(asset, 0)
				if _, ok := mon.(BinOp); ok {
					g.use("stmt_save_arithmetic")
				}
			}
			if g.r.Chance(1, 12) || (g.cfg.SavePct > 0 && g.r.Intn(100) < 3*g.cfg.SavePct) { // a difference that comes out negative
				a := g.amount()
				mon = BinOp{'-', g.monetaryLit(asset, a), g.monetaryLit(asset, new(big.Int).Add(a, big.NewInt(int64(1+g.r.Intn(500)))))}
				g.use("stmt_save_negative_difference")
			}
			g.prog.Stmts = append(g.prog.Stmts, Save{Mon: mon, Acc: acc})
		}
	}
}

// someSourceAccount: account expression of a source already generated for that asset (save precedes later sends too,
// so pick from the pool of accounts and let later sends collide with it).
func (g *gen) someSourceAccount(asset string) Expr {
	var found []Expr
	var walk func(s Source)
	walk = func(s Source) {
		switch s := s.(type) {
		case SrcAccount:
			if !isWorldLit(s.Acc) {
				found = append(found, s.Acc)
			}
		case SrcMaxed:
			walk(s.Src)
		case SrcInOrder:
			for _, x := range s.Srcs {
				walk(x)
			}
		case SrcAllotment:
			for _, x := range s.Srcs {
				walk(x)
			}
		}
	}
	for _, st := range g.prog.Stmts {
		if sd, ok := st.(Send); ok {
			if sendAssetLit(sd) == asset {
				walk(sd.Src)
			}
		}
	}
	if len(found) == 0 {
		return nil
	}
	return vc.Pick(g.r, found)
}

func sendAssetLit(s Send) string {
	var e Expr = s.Mon
	if e == nil {
		e = s.AllAsset
	}
	for {
		switch x := e.(type) {
		case BinOp:
			e = x.L
			continue
		case LitMonetary:
			e = x.Asset
			continue
		case LitAsset:
			return x.Name
		}
		return ""
	}
}

// breakRule violates exactly one static rule by adding / rewriting a statement; returns the rule name.
func (g *gen) breakRule() string {
	asset := vc.Pick(g.r, g.cfg.Assets)
	a1, a2 := LitAccount{g.cfg.Accounts[0]}, LitAccount{g.cfg.Accounts[1]}
	mon := LitMonetary{LitAsset{asset}, big.NewInt(int64(g.r.Intn(100)))}
	mk := func(src Source, dst Dest) Send { return Send{Mon: mon, Src: src, Dst: dst} }
	var st Stmt
	var rule string
	switch g.r.Intn(16) {
	case 0:
		rule = "dest_allotment_under_100"
		st = mk(SrcAccount{Acc: LitAccount{"world"}}, DestAllotment{Portions: []Portion{{PConst, "1/3"}, {PConst, "1/3"}}, Dests: []KeptOrDest{{To: DestAccount{a1}}, {To: DestAccount{a2}}}})
	case 1:
		rule = "dest_allotment_over_100"
		st = mk(SrcAccount{Acc: LitAccount{"world"}}, DestAllotment{Portions: []Portion{{PConst, "2/3"}, {PConst, "50%"}}, Dests: []KeptOrDest{{To: DestAccount{a1}}, {To: DestAccount{a2}}}})
	case 2:
		rule = "src_allotment_under_100"
		st = mk(SrcAllotment{Portions: []Portion{{PConst, "1/4"}, {PConst, "1/4"}}, Srcs: []Source{SrcAccount{Acc: a1}, SrcAccount{Acc: a2}}}, DestAccount{LitAccount{"world"}})
	case 3:
		rule = "src_allotment_over_100"
		st = mk(SrcAllotment{Portions: []Portion{{PConst, "3/4"}, {PConst, "50%"}}, Srcs: []Source{SrcAccount{Acc: a1}, SrcAccount{Acc: a2}}}, DestAccount{LitAccount{"world"}})
	case 4:
		rule = "two_remaining"
		st = mk(SrcAccount{Acc: LitAccount{"world"}}, DestAllotment{Portions: []Portion{{Kind: PRemaining}, {PConst, "10%"}, {Kind: PRemaining}}, Dests: []KeptOrDest{{To: DestAccount{a1}}, {Kept: true}, {To: DestAccount{a2}}}})
	case 5:
		rule = "remaining_with_100"
		st = mk(SrcAccount{Acc: LitAccount{"world"}}, DestAllotment{Portions: []Portion{{PConst, "1/2"}, {PConst, "50%"}, {Kind: PRemaining}}, Dests: []KeptOrDest{{To: DestAccount{a1}}, {Kept: true}, {To: DestAccount{a2}}}})
	case 6:
		rule = "all_from_allotment"
		st = Send{AllAsset: LitAsset{asset}, Src: SrcAllotment{Portions: []Portion{{PConst, "1/2"}, {PConst, "1/2"}}, Srcs: []Source{SrcAccount{Acc: a1}, SrcAccount{Acc: a2}}}, Dst: DestAccount{LitAccount{"world"}}}
	case 7:
		rule = "all_from_unbounded"
		src := []Source{SrcAccount{Acc: a1, Od: OdUnbounded}, SrcAccount{Acc: LitAccount{"world"}}, SrcInOrder{[]Source{SrcAccount{Acc: a2}, SrcAccount{Acc: a1, Od: OdUnbounded}}}}
		st = Send{AllAsset: LitAsset{asset}, Src: vc.Pick(g.r, src), Dst: DestAccount{a2}}
	case 8:
		rule = "unbounded_not_last"
		first := vc.Pick(g.r, []Source{SrcAccount{Acc: a1, Od: OdUnbounded}, SrcAccount{Acc: LitAccount{"world"}}, SrcInOrder{[]Source{SrcAccount{Acc: a1, Od: OdUnbounded}}}})
		st = mk(SrcInOrder{[]Source{first, SrcAccount{Acc: a2}}}, DestAccount{LitAccount{"world"}})
	case 9:
		rule = "overdraft_on_world"
		st = mk(SrcAccount{Acc: LitAccount{"world"}, Od: vc.Pick(g.r, []OverdraftKind{OdUnbounded, OdSpecific}), Specific: mon}, DestAccount{a1})
	case 10:
		rule = "emptied_twice"
		inner := vc.Pick(g.r, []Source{SrcAccount{Acc: a1}, SrcInOrder{[]Source{SrcAccount{Acc: a2}, SrcAccount{Acc: a1, Od: OdSpecific, Specific: mon}}}})
		st = mk(SrcInOrder{[]Source{SrcAccount{Acc: a1}, inner}}, DestAccount{LitAccount{"world"}})
	case 11:
		rule = "undeclared_variable"
		st = vc.Pick(g.r, []Stmt{mk(SrcAccount{Acc: VarRef{"nope"}}, DestAccount{a1}), mk(SrcAccount{Acc: a1}, DestAccount{VarRef{"nope"}}), SetTxMeta{"k", VarRef{"nope"}},
			mk(SrcAccount{Acc: LitAccount{"world"}}, DestAllotment{Portions: []Portion{{PVar, "nope"}, {Kind: PRemaining}}, Dests: []KeptOrDest{{To: DestAccount{a1}}, {Kept: true}}})})
	case 12:
		rule = "duplicate_variable"
		g.prog.Vars = append(g.prog.Vars, VarDecl{Type: TAccount, Name: "dup"}, VarDecl{Type: vc.Pick(g.r, []Type{TAccount, TNumber}), Name: "dup"})
		g.w.Vars["dup"] = "alice"
		return rule
	case 13:
		rule = "ill_typed"
		st = vc.Pick(g.r, []Stmt{
			mk(SrcAccount{Acc: LitAsset{asset}}, DestAccount{a1}),
			mk(SrcAccount{Acc: a1}, DestAccount{LitNumber{big.NewInt(3)}}),
			mk(SrcMaxed{Max: LitNumber{big.NewInt(5)}, Src: SrcAccount{Acc: a1}}, DestAccount{a2}),
			mk(SrcAccount{Acc: a1, Od: OdSpecific, Specific: LitNumber{big.NewInt(5)}}, DestAccount{a2}),
			Send{Mon: LitNumber{big.NewInt(5)}, Src: SrcAccount{Acc: a1}, Dst: DestAccount{a2}},
			Send{Mon: BinOp{'+', mon, LitNumber{big.NewInt(1)}}, Src: SrcAccount{Acc: a1}, Dst: DestAccount{a2}},
			Send{Mon: LitMonetary{a1, big.NewInt(4)}, Src: SrcAccount{Acc: a1}, Dst: DestAccount{a2}},
			Send{AllAsset: a1, Src: SrcAccount{Acc: a1}, Dst: DestAccount{a2}},
			mk(SrcAccount{Acc: a1}, DestInOrder{Maxes: []Expr{LitString{"x"}}, Dests: []KeptOrDest{{To: DestAccount{a2}}}, Remaining: KeptOrDest{Kept: true}}),
			SetAccountMeta{Acc: LitString{"alice"}, Key: "k", Val: mon},
			SetTxMeta{Key: "k", Val: BinOp{'-', a1, a2}},
			SetTxMeta{Key: "k", Val: BinOp{'+', LitNumber{big.NewInt(1)}, mon}},
			Save{Mon: LitNumber{big.NewInt(1)}, Acc: a1},
			Save{Mon: mon, Acc: LitAsset{asset}},
			Save{AllAsset: a1, Acc: a1},
		})
	case 14:
		rule = "portion_variable_wrong_type_or_no_remaining"
		name := g.declPlain(TNumber, "5")
		if g.r.Bool() {
			name = g.declPlain(TPortion, "1/2")
			st = mk(SrcAccount{Acc: LitAccount{"world"}}, DestAllotment{Portions: []Portion{{PVar, name}, {PConst, "1/2"}}, Dests: []KeptOrDest{{To: DestAccount{a1}}, {Kept: true}}})
		} else {
			st = mk(SrcAccount{Acc: LitAccount{"world"}}, DestAllotment{Portions: []Portion{{PVar, name}, {Kind: PRemaining}}, Dests: []KeptOrDest{{To: DestAccount{a1}}, {Kept: true}}})
		}
	case 15:
		rule = "bad_origin"
		name := g.newName("bad")
		if g.r.Bool() {
			g.prog.Vars = append(g.prog.Vars, VarDecl{Type: TNumber, Name: name, Origin: OrBalance, Acc: a1, Asset: LitAsset{asset}})
		} else {
			g.prog.Vars = append(g.prog.Vars, VarDecl{Type: TString, Name: name, Origin: OrMeta, Acc: LitAsset{asset}, Key: "k1"})
		}
		return rule
	}
	pos := g.r.Intn(len(g.prog.Stmts) + 1)
	g.prog.Stmts = append(g.prog.Stmts[:pos], append([]Stmt{st}, g.prog.Stmts[pos:]...)...)
	return rule
}

// randSrc adapts vc.Rand to math/rand's Source for big.Int.Rand.
type rsrc struct{ r *vc.Rand }

func (s rsrc) Int63() int64   { return int64(s.r.Uint64() >> 1) }
func (s rsrc) Seed(int64)     {}
func (s rsrc) Uint64() uint64 { return s.r.Uint64() }

func randSrc(r *vc.Rand) *mrand.Rand { return mrand.New(rsrc{r}) }

// WildCfg: syntactically valid but not necessarily meaningful programs (C12): few accounts used repeatedly, several
// lookups on one account, save on untouched accounts, rule-breaking constructs, negative arithmetic.
func WildCfg(r *vc.Rand) GenCfg {
	c := GenCfg{Accounts: []string{"alice", "bob"}, Assets: []string{"USD", "EUR/2"}, MaxSends: 3, MaxDepth: 3, OtherStmts: true, Vars: true, HugePct: 10, NegBalPct: 25, Wild: true}
	c.Break = r.Chance(1, 3)
	return c
}
