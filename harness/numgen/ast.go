// Package numgen: Numscript AST, printer, generator and an independent reference evaluator.
// Nothing in this package imports the repository's compiler or VM.
package numgen

import (
	"fmt"
	"math/big"
	"strings"
)

// ------------------------------------------------------------------------------------------ types

type Type int

const (
	TAccount Type = iota + 1
	TAsset
	TNumber
	TString
	TMonetary
	TPortion
)

func (t Type) String() string {
	return [...]string{"?", "account", "asset", "number", "string", "monetary", "portion"}[t]
}

// ------------------------------------------------------------------------------------------ expressions

type Expr interface{ expr() }

type LitAccount struct{ Addr string }
type LitAsset struct{ Name string }
type LitNumber struct{ N *big.Int }
type LitString struct{ S string }
type LitPortion struct{ Text string } // "1/3" or "12.5%"
type LitMonetary struct {
	Asset Expr
	Amt   *big.Int
}
type VarRef struct{ Name string }
type BinOp struct {
	Op   byte // '+' or '-'
	L, R Expr
}

func (LitAccount) expr()  {}
func (LitAsset) expr()    {}
func (LitNumber) expr()   {}
func (LitString) expr()   {}
func (LitPortion) expr()  {}
func (LitMonetary) expr() {}
func (VarRef) expr()      {}
func (BinOp) expr()       {}

// ------------------------------------------------------------------------------------------ sources

type Source interface{ source() }

type OverdraftKind int

const (
	OdNone OverdraftKind = iota
	OdUnbounded
	OdSpecific
)

type SrcAccount struct {
	Acc      Expr
	Od       OverdraftKind
	Specific Expr
}
type SrcMaxed struct {
	Max Expr
	Src Source
}
type SrcInOrder struct{ Srcs []Source }

// SrcAllotment is only legal at the top of a send's source.
type SrcAllotment struct {
	Portions []Portion
	Srcs     []Source
}

func (SrcAccount) source()   {}
func (SrcMaxed) source()     {}
func (SrcInOrder) source()   {}
func (SrcAllotment) source() {}

type PortionKind int

const (
	PConst PortionKind = iota
	PVar
	PRemaining
)

type Portion struct {
	Kind PortionKind
	Text string // const text or variable name
}

// ------------------------------------------------------------------------------------------ destinations

type Dest interface{ dest() }

type DestAccount struct{ Acc Expr }
type KeptOrDest struct {
	Kept bool
	To   Dest
}
type DestInOrder struct {
	Maxes     []Expr
	Dests     []KeptOrDest
	Remaining KeptOrDest
}
type DestAllotment struct {
	Portions []Portion
	Dests    []KeptOrDest
}

func (DestAccount) dest()   {}
func (DestInOrder) dest()   {}
func (DestAllotment) dest() {}

// ------------------------------------------------------------------------------------------ statements

type Stmt interface{ stmt() }

type Send struct {
	Mon       Expr // nil when All
	AllAsset  Expr // [ASSET *]
	Src       Source
	Dst       Dest
	DestFirst bool
}
type SetTxMeta struct {
	Key string
	Val Expr
}
type SetAccountMeta struct {
	Acc Expr
	Key string
	Val Expr
}
type Save struct {
	Mon      Expr
	AllAsset Expr
	Acc      Expr
}
type Fail struct{}
type Print struct{ E Expr }

func (Send) stmt()           {}
func (SetTxMeta) stmt()      {}
func (SetAccountMeta) stmt() {}
func (Save) stmt()           {}
func (Fail) stmt()           {}
func (Print) stmt()          {}

type OriginKind int

const (
	OrPlain OriginKind = iota
	OrMeta
	OrBalance
)

type VarDecl struct {
	Type   Type
	Name   string
	Origin OriginKind
	Acc    Expr   // meta / balance
	Key    string // meta
	Asset  Expr   // balance
}

type Program struct {
	Vars  []VarDecl
	Stmts []Stmt
}

// ------------------------------------------------------------------------------------------ printer

func (p *Program) String() string {
	var sb strings.Builder
	if len(p.Vars) > 0 {
		sb.WriteString("vars {\n")
		for _, v := range p.Vars {
			fmt.Fprintf(&sb, "\t%s $%s", v.Type, v.Name)
			switch v.Origin {
			case OrMeta:
				fmt.Fprintf(&sb, " = meta(%s, \"%s\")", ExprString(v.Acc), v.Key)
			case OrBalance:
				fmt.Fprintf(&sb, " = balance(%s, %s)", ExprString(v.Acc), ExprString(v.Asset))
			}
			sb.WriteString("\n")
		}
		sb.WriteString("}\n")
	}
	for i, s := range p.Stmts {
		if i > 0 {
			sb.WriteString("\n")
		}
		sb.WriteString(StmtString(s))
	}
	sb.WriteString("\n")
	return sb.String()
}

func ExprString(e Expr) string {
	switch e := e.(type) {
	case LitAccount:
		return "@" + e.Addr
	case LitAsset:
		return e.Name
	case LitNumber:
		return e.N.String()
	case LitString:
		return "\"" + e.S + "\""
	case LitPortion:
		return e.Text
	case LitMonetary:
		return "[" + ExprString(e.Asset) + " " + e.Amt.String() + "]"
	case VarRef:
		return "$" + e.Name
	case BinOp:
		return ExprString(e.L) + " " + string(e.Op) + " " + ExprString(e.R)
	}
	return "?"
}

func ind(n int) string { return strings.Repeat("\t", n) }

func SourceString(s Source, d int) string {
	switch s := s.(type) {
	case SrcAccount:
		out := ExprString(s.Acc)
		switch s.Od {
		case OdUnbounded:
			out += " allowing unbounded overdraft"
		case OdSpecific:
			out += " allowing overdraft up to " + ExprString(s.Specific)
		}
		return out
	case SrcMaxed:
		return "max " + ExprString(s.Max) + " from " + SourceString(s.Src, d)
	case SrcInOrder:
		var sb strings.Builder
		sb.WriteString("{\n")
		for _, x := range s.Srcs {
			sb.WriteString(ind(d+1) + SourceString(x, d+1) + "\n")
		}
		sb.WriteString(ind(d) + "}")
		return sb.String()
	case SrcAllotment:
		var sb strings.Builder
		sb.WriteString("{\n")
		for i, x := range s.Srcs {
			sb.WriteString(ind(d+1) + PortionString(s.Portions[i]) + " from " + SourceString(x, d+1) + "\n")
		}
		sb.WriteString(ind(d) + "}")
		return sb.String()
	}
	return "?"
}

func PortionString(p Portion) string {
	switch p.Kind {
	case PConst:
		return p.Text
	case PVar:
		return "$" + p.Text
	}
	return "remaining"
}

func kodString(k KeptOrDest, d int) string {
	if k.Kept {
		return "kept"
	}
	return "to " + DestString(k.To, d)
}

func DestString(x Dest, d int) string {
	switch x := x.(type) {
	case DestAccount:
		return ExprString(x.Acc)
	case DestInOrder:
		var sb strings.Builder
		sb.WriteString("{\n")
		for i := range x.Dests {
			sb.WriteString(ind(d+1) + "max " + ExprString(x.Maxes[i]) + " " + kodString(x.Dests[i], d+1) + "\n")
		}
		sb.WriteString(ind(d+1) + "remaining " + kodString(x.Remaining, d+1) + "\n")
		sb.WriteString(ind(d) + "}")
		return sb.String()
	case DestAllotment:
		var sb strings.Builder
		sb.WriteString("{\n")
		for i := range x.Dests {
			sb.WriteString(ind(d+1) + PortionString(x.Portions[i]) + " " + kodString(x.Dests[i], d+1) + "\n")
		}
		sb.WriteString(ind(d) + "}")
		return sb.String()
	}
	return "?"
}

func StmtString(s Stmt) string {
	switch s := s.(type) {
	case Send:
		var m string
		if s.Mon != nil {
			m = ExprString(s.Mon)
		} else {
			m = "[" + ExprString(s.AllAsset) + " *]"
		}
		src := "\tsource = " + SourceString(s.Src, 1) + "\n"
		dst := "\tdestination = " + DestString(s.Dst, 1) + "\n"
		if s.DestFirst {
			return "send " + m + " (\n" + dst + src + ")"
		}
		return "send " + m + " (\n" + src + dst + ")"
	case SetTxMeta:
		return "set_tx_meta(\"" + s.Key + "\", " + ExprString(s.Val) + ")"
	case SetAccountMeta:
		return "set_account_meta(" + ExprString(s.Acc) + ", \"" + s.Key + "\", " + ExprString(s.Val) + ")"
	case Save:
		if s.Mon != nil {
			return "save " + ExprString(s.Mon) + " from " + ExprString(s.Acc)
		}
		return "save [" + ExprString(s.AllAsset) + " *] from " + ExprString(s.Acc)
	case Fail:
		return "fail"
	case Print:
		return "print " + ExprString(s.E)
	}
	return "?"
}
