//go:build verif

package ledgerstore

import "github.com/uptrace/bun"

// NewStoreForVerif puts a Store on top of an arbitrary *bun.DB (the monitors use a recording database/sql driver).
// Injected by the verification overlay only; not part of the repository.
func NewStoreForVerif(db *bun.DB, bucket, ledger string) *Store {
	return &Store{bucket: &Bucket{name: bucket, db: db}, name: ledger}
}
