// Package fakesql: a database/sql driver that records every statement (bun interpolates arguments client-side, so the
// text is what PostgreSQL would parse) and answers queries through a handler supplied by the monitor.
package fakesql

import (
	"context"
	"database/sql"
	"database/sql/driver"
	"fmt"
	"io"
	"sync"
	"sync/atomic"

	"github.com/uptrace/bun"
	"github.com/uptrace/bun/dialect/pgdialect"
)

type Stmt struct {
	Kind  string // query | exec | prepare | stmt-exec | begin | commit | rollback
	Text  string
	Args  []driver.Value
	InTx  bool
	Order int64
}

// Handler answers a query: columns + rows (values in the shapes lib/pq would deliver). nil handler = no rows.
type Handler func(text string, args []driver.Value) (cols []string, rows [][]driver.Value, err error)

type Recorder struct {
	mu      sync.Mutex
	Stmts   []Stmt
	Handler Handler
	ExecErr func(text string) error
	n       atomic.Int64
}

func (r *Recorder) add(s Stmt) {
	s.Order = r.n.Add(1)
	r.mu.Lock()
	r.Stmts = append(r.Stmts, s)
	r.mu.Unlock()
}

func (r *Recorder) Reset() {
	r.mu.Lock()
	r.Stmts = nil
	r.mu.Unlock()
}

func (r *Recorder) Snapshot() []Stmt {
	r.mu.Lock()
	defer r.mu.Unlock()
	return append([]Stmt{}, r.Stmts...)
}

var (
	regMu sync.Mutex
	regs  = map[string]*Recorder{}
	once  sync.Once
	seq   atomic.Int64
)

type drv struct{}

func (drv) Open(name string) (driver.Conn, error) {
	regMu.Lock()
	r := regs[name]
	regMu.Unlock()
	if r == nil {
		return nil, fmt.Errorf("fakesql: unknown dsn %q", name)
	}
	return &conn{r: r}, nil
}

// Open returns a bun DB (pgdialect, as bunconnect builds it) on a fresh recorder.
func Open() (*bun.DB, *Recorder) {
	once.Do(func() { sql.Register("verifsql", drv{}) })
	name := fmt.Sprintf("rec%d", seq.Add(1))
	r := &Recorder{}
	regMu.Lock()
	regs[name] = r
	regMu.Unlock()
	sqldb, err := sql.Open("verifsql", name)
	if err != nil {
		panic(err)
	}
	return bun.NewDB(sqldb, pgdialect.New(), bun.WithDiscardUnknownColumns()), r
}

type conn struct {
	r    *Recorder
	inTx bool
}

func vals(nv []driver.NamedValue) []driver.Value {
	out := make([]driver.Value, len(nv))
	for i, v := range nv {
		out[i] = v.Value
	}
	return out
}

func (c *conn) Prepare(q string) (driver.Stmt, error) {
	c.r.add(Stmt{Kind: "prepare", Text: q, InTx: c.inTx})
	return &stmt{c: c, q: q}, nil
}
func (c *conn) Close() error { return nil }
func (c *conn) Begin() (driver.Tx, error) {
	c.inTx = true
	c.r.add(Stmt{Kind: "begin"})
	return &tx{c}, nil
}
func (c *conn) BeginTx(ctx context.Context, _ driver.TxOptions) (driver.Tx, error) { return c.Begin() }

func (c *conn) QueryContext(ctx context.Context, q string, args []driver.NamedValue) (driver.Rows, error) {
	c.r.add(Stmt{Kind: "query", Text: q, Args: vals(args), InTx: c.inTx})
	return c.answer(q, vals(args))
}

func (c *conn) answer(q string, args []driver.Value) (driver.Rows, error) {
	if c.r.Handler == nil {
		return &rows{}, nil
	}
	cols, rs, err := c.r.Handler(q, args)
	if err != nil {
		return nil, err
	}
	return &rows{cols: cols, rows: rs}, nil
}

func (c *conn) ExecContext(ctx context.Context, q string, args []driver.NamedValue) (driver.Result, error) {
	c.r.add(Stmt{Kind: "exec", Text: q, Args: vals(args), InTx: c.inTx})
	if c.r.ExecErr != nil {
		if err := c.r.ExecErr(q); err != nil {
			return nil, err
		}
	}
	return driver.RowsAffected(0), nil
}

type tx struct{ c *conn }

func (t *tx) Commit() error   { t.c.inTx = false; t.c.r.add(Stmt{Kind: "commit"}); return nil }
func (t *tx) Rollback() error { t.c.inTx = false; t.c.r.add(Stmt{Kind: "rollback"}); return nil }

type stmt struct {
	c *conn
	q string
}

func (s *stmt) Close() error  { return nil }
func (s *stmt) NumInput() int { return -1 }
func (s *stmt) Exec(args []driver.Value) (driver.Result, error) {
	s.c.r.add(Stmt{Kind: "stmt-exec", Text: s.q, Args: append([]driver.Value{}, args...), InTx: s.c.inTx})
	return driver.RowsAffected(0), nil
}
func (s *stmt) Query(args []driver.Value) (driver.Rows, error) {
	s.c.r.add(Stmt{Kind: "query", Text: s.q, Args: append([]driver.Value{}, args...), InTx: s.c.inTx})
	return s.c.answer(s.q, args)
}

type rows struct {
	cols []string
	rows [][]driver.Value
	i    int
}

func (r *rows) Columns() []string { return r.cols }
func (r *rows) Close() error      { return nil }
func (r *rows) Next(dest []driver.Value) error {
	if r.i >= len(r.rows) {
		return io.EOF
	}
	copy(dest, r.rows[r.i])
	r.i++
	return nil
}
