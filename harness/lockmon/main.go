// lockmon: C15 — the account lock manager is exclusive, grants every pending request once conflicts are gone, and a
// cancelled request neither obtains nor leaves behind any lock. Black box on command.NewDefaultLocker().
package main

import (
	"context"
	"fmt"
	"os"
	"runtime"
	"sort"
	"strings"
	"sync"
	"sync/atomic"
	"time"

	"github.com/formancehq/ledger/internal/engine/command"
	vc "github.com/formancehq/ledger/internal/verif/vcommon"
)

func main() {
	cfg := vc.ParseFlags()
	rep := vc.NewReport(cfg)
	if cfg.Prop != "C15" {
		fmt.Fprintln(os.Stderr, "lockmon: unknown property", cfg.Prop)
		os.Exit(3)
	}
	switch cfg.Mode {
	case "coincide":
		runCoincide(cfg, rep)
	case "fanout":
		runFanout(cfg, rep)
	case "handoff":
		runHandoff(cfg, rep)
	case "settle":
		runSettle(cfg, rep)
	default:
		runStress(cfg, rep)
	}
	rep.Write(true)
}

// ---------------------------------------------------------------------------------------------- shadow table

type shadow struct {
	mu      sync.Mutex
	readers map[string]int
	writer  map[string]int // holder id
	seq     int64
}

func newShadow() *shadow { return &shadow{readers: map[string]int{}, writer: map[string]int{}} }

// enter is called after the real grant; returns a description of a conflict with another current holder.
func (s *shadow) enter(id int, acc command.Accounts) string {
	s.mu.Lock()
	defer s.mu.Unlock()
	s.seq++
	var bad []string
	for _, a := range uniq(acc.Write) {
		if w, ok := s.writer[a]; ok {
			bad = append(bad, fmt.Sprintf("write(%s) granted to #%d while #%d holds it for writing", a, id, w))
		}
		if n := s.readers[a]; n > 0 {
			bad = append(bad, fmt.Sprintf("write(%s) granted to #%d while %d reader(s) hold it", a, id, n))
		}
	}
	for _, a := range uniq(acc.Read) {
		if w, ok := s.writer[a]; ok {
			bad = append(bad, fmt.Sprintf("read(%s) granted to #%d while #%d holds it for writing", a, id, w))
		}
	}
	for _, a := range uniq(acc.Write) {
		s.writer[a] = id
	}
	for _, a := range uniq(acc.Read) {
		s.readers[a]++
	}
	return strings.Join(bad, "; ")
}

// leave is called before the real release.
func (s *shadow) leave(id int, acc command.Accounts) {
	s.mu.Lock()
	defer s.mu.Unlock()
	s.seq++
	for _, a := range uniq(acc.Write) {
		if s.writer[a] == id {
			delete(s.writer, a)
		}
	}
	for _, a := range uniq(acc.Read) {
		s.readers[a]--
		if s.readers[a] <= 0 {
			delete(s.readers, a)
		}
	}
}

func (s *shadow) busy(acc command.Accounts) bool {
	s.mu.Lock()
	defer s.mu.Unlock()
	for _, a := range acc.Write {
		if _, ok := s.writer[a]; ok || s.readers[a] > 0 {
			return true
		}
	}
	for _, a := range acc.Read {
		if _, ok := s.writer[a]; ok {
			return true
		}
	}
	return false
}

func uniq(xs []string) []string {
	m := map[string]bool{}
	var out []string
	for _, x := range xs {
		if !m[x] {
			m[x] = true
			out = append(out, x)
		}
	}
	return out
}

// ---------------------------------------------------------------------------------------------- leak probe

// leaked: clock-free black-box probe. With an already-cancelled context the fast path still grants synchronously when
// everything is free, and the slow path returns the context error at once. Returns the accounts that are still held.
func leaked(l command.Locker, accounts []string) []string {
	ctx, cancel := context.WithCancel(context.Background())
	cancel()
	unlock, err := l.Lock(ctx, command.Accounts{Write: accounts})
	if err == nil {
		unlock(context.Background())
		return nil
	}
	var held []string
	for _, a := range accounts {
		u, err := l.Lock(ctx, command.Accounts{Write: []string{a}})
		if err != nil {
			held = append(held, a)
		} else {
			u(context.Background())
		}
	}
	if len(held) == 0 {
		held = []string{"(probe of all accounts failed, single probes succeeded)"}
	}
	return held
}

// ---------------------------------------------------------------------------------------------- stress rounds

type opDesc struct {
	Worker int      `json:"worker"`
	Read   []string `json:"read"`
	Write  []string `json:"write"`
	Cancel string   `json:"cancel,omitempty"`
}

func genAccounts(r *vc.Rand, pool []string) command.Accounts {
	var acc command.Accounts
	switch r.Intn(5) {
	case 0: // commander shape: sources are in both sets
		n := r.Range(1, len(pool))
		perm := append([]string{}, pool...)
		r.Shuffle(len(perm), func(i, j int) { perm[i], perm[j] = perm[j], perm[i] })
		acc.Read = perm[:n]
		acc.Write = perm[:r.Range(0, n)]
	case 1: // duplicates
		a := vc.Pick(r, pool)
		acc.Read = []string{a, a}
		if r.Bool() {
			acc.Write = []string{a, a}
		}
	default:
		for _, a := range pool {
			switch r.Intn(4) {
			case 0:
				acc.Read = append(acc.Read, a)
			case 1:
				acc.Write = append(acc.Write, a)
			}
		}
	}
	return acc
}

func runStress(cfg *vc.Config, rep *vc.Report) {
	cfg.Cases(300, 20000, func(i int, r *vc.Rand) {
		nW := vc.Pick(r, []int{4, 8, 16, 32, 64})
		nA := r.Range(2, 6)
		pool := []string{"a", "b", "c", "d", "e", "f"}[:nA]
		opsPer := r.Range(3, 12)
		cancelPct := vc.Pick(r, []int{0, 20, 50})
		locker := command.NewDefaultLocker()
		sh := newShadow()
		rep.Current(map[string]any{"index": i, "workers": nW, "accounts": nA, "ops": opsPer, "cancel_pct": cancelPct})
		rep.Eval()

		type wstate struct {
			inLock atomic.Int64 // 0 = not in Lock; otherwise op number
			desc   atomic.Value
			done   atomic.Bool
		}
		states := make([]*wstate, nW)
		var wg sync.WaitGroup
		var firstViol atomic.Value
		nextID := atomic.Int64{}
		var waits, cancelsWaiting, cancelsTotal, grants int64
		for w := 0; w < nW; w++ {
			states[w] = &wstate{}
			wr := r.Fork()
			wg.Add(1)
			go func(w int, wr *vc.Rand) {
				defer wg.Done()
				st := states[w]
				defer st.done.Store(true)
				for k := 0; k < opsPer; k++ {
					acc := genAccounts(wr, pool)
					id := int(nextID.Add(1))
					ctx := context.Background()
					var cancel context.CancelFunc
					cmode := ""
					if wr.Intn(100) < cancelPct {
						ctx, cancel = context.WithCancel(ctx)
						switch wr.Intn(3) {
						case 0:
							cmode = "before"
							cancel()
						case 1:
							cmode = "concurrent-gosched"
							n := wr.Intn(20)
							go func() {
								for j := 0; j < n; j++ {
									runtime.Gosched()
								}
								cancel()
							}()
						case 2:
							cmode = "concurrent-sleep"
							d := time.Duration(wr.Intn(200)) * time.Microsecond
							go func() { time.Sleep(d); cancel() }()
						}
						atomic.AddInt64(&cancelsTotal, 1)
					}
					st.desc.Store(opDesc{Worker: w, Read: acc.Read, Write: acc.Write, Cancel: cmode})
					expectedWait := sh.busy(acc)
					st.inLock.Store(int64(k + 1))
					unlock, err := locker.Lock(ctx, acc)
					st.inLock.Store(0)
					if err != nil {
						if cmode == "" {
							firstViol.CompareAndSwap(nil, "error-without-cancellation: "+err.Error())
						}
						if expectedWait {
							atomic.AddInt64(&cancelsWaiting, 1)
						}
						continue
					}
					if expectedWait {
						atomic.AddInt64(&waits, 1)
					}
					atomic.AddInt64(&grants, 1)
					if bad := sh.enter(id, acc); bad != "" {
						firstViol.CompareAndSwap(nil, "overlap: "+bad)
					}
					for j := wr.Intn(6); j > 0; j-- {
						runtime.Gosched()
					}
					sh.leave(id, acc)
					unlock(context.Background())
					if cancel != nil {
						cancel()
					}
				}
			}(w, wr)
		}
		finished := make(chan struct{})
		go func() { wg.Wait(); close(finished) }()
		select {
		case <-finished:
		case <-time.After(30 * time.Second):
			// quiescence: every worker that is not inside Lock has finished; nobody holds anything (holders never block)
			time.Sleep(2 * time.Second)
			var stuck []opDesc
			allOthersDone := true
			for _, st := range states {
				if st.inLock.Load() != 0 {
					stuck = append(stuck, st.desc.Load().(opDesc))
				} else if !st.done.Load() {
					allOthersDone = false
				}
			}
			if len(stuck) > 0 && allOthersDone {
				rep.Violate("pending-at-quiescence:stress", fmt.Sprintf("%d Lock call(s) still pending although every holder has released: %s", len(stuck), vc.MustJSON(stuck)), i,
					map[string]any{"index": i, "workers": nW, "accounts": nA, "cancel_pct": cancelPct})
			} else {
				rep.Inconc("round did not finish within 30 s but is not quiescent (loaded machine?)")
			}
			rep.Write(true)
			os.Exit(0)
		}
		rep.Add("grants", grants)
		rep.Add("waits", waits)
		rep.Add("cancellations", cancelsTotal)
		rep.Add("cancellations_of_waiting_requests", cancelsWaiting)
		if v := firstViol.Load(); v != nil {
			s := v.(string)
			rep.Violate(strings.SplitN(s, ":", 2)[0]+":stress", s, i, map[string]any{"index": i, "workers": nW, "accounts": nA, "cancel_pct": cancelPct})
		}
		if held := leaked(locker, pool); held != nil {
			sort.Strings(held)
			rep.Violate("lock-left-behind:stress", "after every holder released and every call returned, still held: "+strings.Join(held, ","), i,
				map[string]any{"index": i, "workers": nW, "accounts": nA, "cancel_pct": cancelPct})
		}
		rep.Inc("leak_probes")
		rep.DistinctCase(vc.Hash64(fmt.Sprint(nW, nA, opsPer, cancelPct, i)))
		if rep.WantSample() {
			rep.Sample(map[string]any{"workers": nW, "accounts": pool, "ops_per_worker": opsPer, "cancel_pct": cancelPct, "grants": grants, "waits": waits, "cancelled_while_waiting": cancelsWaiting})
		}
	})
}

// ---------------------------------------------------------------------------------------------- cancel coincides with grant

// runCoincide: GOMAXPROCS(1). A holder H has write(a); k waiters queue behind it; the driver then issues, back to back
// and without yielding, the cancellation of a waiter and the release of H (both orders), so that the waiter wakes up
// with both the cancellation and the grant ready.
func runCoincide(cfg *vc.Config, rep *vc.Report) {
	runtime.GOMAXPROCS(1)
	cfg.Cases(3000, 200000, func(i int, r *vc.Rand) {
		locker := command.NewDefaultLocker()
		pool := []string{"a", "b", "c"}
		rep.Eval()
		hAcc := command.Accounts{Write: []string{"a"}}
		if r.Bool() {
			hAcc = command.Accounts{Read: []string{"a", "b"}, Write: []string{"a"}}
		}
		hUnlock, err := locker.Lock(context.Background(), hAcc)
		if err != nil {
			rep.Violate("error-without-cancellation:coincide", err.Error(), i, nil)
			return
		}
		nWait := r.Range(1, 3)
		type waiter struct {
			cancel context.CancelFunc
			unlock command.Unlock
			acc    command.Accounts
			err    error
		}
		ws := make([]*waiter, nWait)
		results := make(chan *waiter, nWait)
		for k := range ws {
			ctx, cancel := context.WithCancel(context.Background())
			w := &waiter{cancel: cancel}
			w.acc = command.Accounts{Write: []string{"a"}}
			if r.Chance(1, 3) {
				w.acc = command.Accounts{Read: []string{"a"}}
			}
			ws[k] = w
			go func() {
				w.unlock, w.err = locker.Lock(ctx, w.acc)
				results <- w
			}()
		}
		// let the waiters reach their select (single P: yielding runs them until they block)
		for j := 0; j < 10+nWait*4; j++ {
			runtime.Gosched()
		}
		victim := ws[r.Intn(nWait)]
		order := r.Intn(2)
		if order == 0 {
			victim.cancel()
			hUnlock(context.Background())
		} else {
			hUnlock(context.Background())
			victim.cancel()
		}
		rep.Inc(fmt.Sprintf("order_%d", order))
		// everybody must come back (in whatever order the locker grants): the victim with an error or a grant, the
		// others with a grant; a granted waiter releases at once so that the next one can be served
		pending := nWait
		timeout := time.After(30 * time.Second)
	collect:
		for pending > 0 {
			select {
			case w := <-results:
				pending--
				if w.err == nil {
					w.unlock(context.Background())
					rep.Inc("granted")
				} else {
					rep.Inc("returned_cancelled")
					if w != victim {
						rep.Violate("error-without-cancellation:coincide", w.err.Error(), i, nil)
					}
				}
			case <-timeout:
				break collect
			}
		}
		desc := map[string]any{"index": i, "waiters": nWait, "order": []string{"cancel-then-release", "release-then-cancel"}[order], "holder": hAcc, "victim": victim.acc}
		if pending > 0 {
			buf := make([]byte, 1<<20)
			os.Stderr.Write(buf[:runtime.Stack(buf, true)])
			rep.Violate("pending-at-quiescence:coincide", fmt.Sprintf("%d waiter(s) never returned after the holder released", pending), i, desc)
			rep.Write(true)
			os.Exit(0)
		}
		if held := leaked(locker, pool); held != nil {
			rep.Violate("lock-left-behind:cancel-coincides-with-grant", "a cancelled Lock returned an error but its accounts stay held: "+strings.Join(held, ","), i, desc)
		}
		rep.Inc("both_ready_wakeups")
		rep.DistinctCase(vc.Hash64(fmt.Sprint(nWait, order, hAcc, victim.acc, i%50)))
		if rep.WantSample() {
			rep.Sample(desc)
		}
	})
}

// ---------------------------------------------------------------------------------------------- fan-out at release

// runFanout: one holder blocks k mutually compatible waiters (readers of one account, writers of disjoint accounts, a
// mix, optionally with a waiter cancelled while queued). When the holder releases, every waiter must be granted while
// the others still hold (they keep their locks until all are in): "grants every pending request once the conflicting
// holders have released".
func runFanout(cfg *vc.Config, rep *vc.Report) {
	cfg.Cases(600, 40000, func(i int, r *vc.Rand) {
		locker := command.NewDefaultLocker()
		pool := []string{"a", "b", "c", "d", "e", "f"}
		k := r.Range(2, 5)
		kind := r.Intn(4)
		var hAcc command.Accounts
		accs := make([]command.Accounts, k)
		var h2Unlock command.Unlock // kind 3: a second holder that keeps the head of the queue blocked
		blockedHead := false
		switch kind {
		case 3: // the head of the queue stays blocked by another holder; the ones behind it become grantable
			u2, err := locker.Lock(context.Background(), command.Accounts{Write: []string{"z"}})
			if err != nil {
				return
			}
			h2Unlock = u2
			blockedHead = true
			hAcc = command.Accounts{Write: []string{"a"}}
			for j := range accs {
				if j == 0 {
					accs[j] = command.Accounts{Write: []string{"z"}}
				} else {
					accs[j] = command.Accounts{Read: []string{"a"}}
				}
			}
		case 0: // readers behind a writer
			hAcc = command.Accounts{Write: []string{"a"}}
			for j := range accs {
				accs[j] = command.Accounts{Read: []string{"a"}}
			}
		case 1: // writers of disjoint accounts behind a holder of all of them
			hAcc = command.Accounts{Write: pool[:k]}
			for j := range accs {
				accs[j] = command.Accounts{Read: []string{pool[j]}, Write: []string{pool[j]}}
			}
		case 2: // mix
			hAcc = command.Accounts{Write: []string{"a", "b"}}
			for j := range accs {
				if j == 0 {
					accs[j] = command.Accounts{Write: []string{"b"}}
				} else {
					accs[j] = command.Accounts{Read: []string{"a"}}
				}
			}
		}
		cancelIdx := -1
		if k > 2 && !blockedHead && r.Chance(1, 3) {
			cancelIdx = 1 + r.Intn(k-2) // a waiter in the middle of the queue gives up before the release
		}
		rep.Eval()
		rep.Inc(fmt.Sprintf("fanout_kind_%d", kind))
		desc := map[string]any{"index": i, "holder": hAcc, "waiters": accs, "cancelled_waiter": cancelIdx}
		hUnlock, err := locker.Lock(context.Background(), hAcc)
		if err != nil {
			rep.Violate("error-without-cancellation:fanout", err.Error(), i, desc)
			return
		}
		granted := make(chan int, k)
		cancelled := make(chan int, k)
		releaseAll := make(chan struct{})
		var wg sync.WaitGroup
		cancels := make([]context.CancelFunc, k)
		for j := 0; j < k; j++ {
			ctx, cancel := context.WithCancel(context.Background())
			cancels[j] = cancel
			wg.Add(1)
			go func(j int) {
				defer wg.Done()
				u, err := locker.Lock(ctx, accs[j])
				if err != nil {
					cancelled <- j
					return
				}
				granted <- j
				<-releaseAll
				u(context.Background())
			}(j)
			// queue order = j: give the goroutine time to reach the queue
			for y := 0; y < 50; y++ {
				runtime.Gosched()
			}
			time.Sleep(200 * time.Microsecond)
		}
		time.Sleep(2 * time.Millisecond)
		want := k
		if cancelIdx >= 0 {
			cancels[cancelIdx]()
			select {
			case <-cancelled:
			case <-time.After(20 * time.Second):
				rep.Inconc("cancelled waiter did not return")
			}
			want--
			rep.Inc("fanout_with_cancelled_waiter")
		}
		if blockedHead {
			want-- // waiter 0 must stay pending until the second holder releases
		}
		hUnlock(context.Background())
		got := 0
		timeout := time.After(20 * time.Second)
	wait:
		for got < want {
			select {
			case <-granted:
				got++
			case <-timeout:
				break wait
			}
		}
		if got < want {
			rep.Violate("grantable-request-left-pending:fanout", fmt.Sprintf("the holder released; %d of %d mutually compatible waiters were granted, the others are still pending although nothing they conflict with is held", got, want), i, desc)
			close(releaseAll)
			rep.Write(true)
			os.Exit(0)
		}
		if blockedHead {
			select {
			case j := <-granted:
				rep.Violate("granted-while-conflicting-holder:fanout", fmt.Sprintf("waiter %d was granted although the account it wants is still held", j), i, desc)
			default:
			}
			h2Unlock(context.Background())
			select {
			case <-granted:
				got++
			case <-time.After(20 * time.Second):
				rep.Violate("grantable-request-left-pending:fanout", "the head of the queue was not granted after its holder released", i, desc)
				close(releaseAll)
				rep.Write(true)
				os.Exit(0)
			}
		}
		close(releaseAll)
		wg.Wait()
		for _, c := range cancels {
			c()
		}
		if held := leaked(locker, pool); held != nil {
			rep.Violate("lock-left-behind:fanout", strings.Join(held, ","), i, desc)
		}
		rep.Add("fanout_grants", int64(got))
		rep.DistinctCase(vc.Hash64(fmt.Sprint("fanout", kind, k, cancelIdx)))
		if rep.WantSample() {
			rep.Sample(desc)
		}
	})
}

// ---------------------------------------------------------------------------------------------- release vs enqueue

// runHandoff: a holder releases at the very moment a conflicting request arrives (both released by one barrier, with a
// seeded skew of a few spins). Whatever the order, the request must be granted: if its failed attempt and its enqueueing
// are not one step with respect to the release, the wake-up is lost and it stays pending although the account is free.
func runHandoff(cfg *vc.Config, rep *vc.Report) {
	cfg.Cases(40000, 2000000, func(i int, r *vc.Rand) {
		locker := command.NewDefaultLocker()
		hAcc := command.Accounts{Write: []string{"a"}}
		wAcc := command.Accounts{Write: []string{"a"}}
		if r.Chance(1, 3) {
			wAcc = command.Accounts{Read: []string{"a"}}
		}
		hUnlock, err := locker.Lock(context.Background(), hAcc)
		if err != nil {
			rep.Violate("error-without-cancellation:handoff", err.Error(), i, nil)
			return
		}
		rep.Eval()
		start := make(chan struct{})
		granted := make(chan command.Unlock, 1)
		skewW, skewH := r.Intn(40), r.Intn(40)
		go func() {
			<-start
			for k := 0; k < skewW; k++ {
				runtime.Gosched()
			}
			u, err := locker.Lock(context.Background(), wAcc)
			if err == nil {
				granted <- u
			}
		}()
		go func() {
			<-start
			for k := 0; k < skewH; k++ {
				runtime.Gosched()
			}
			hUnlock(context.Background())
		}()
		close(start)
		select {
		case u := <-granted:
			u(context.Background())
			rep.Inc("handoffs")
		case <-time.After(20 * time.Second):
			rep.Violate("pending-at-quiescence:release-coincides-with-enqueue", "the holder released while the request was being enqueued; the request is still pending although the account is free", i,
				map[string]any{"index": i, "waiter": wAcc, "skew_waiter": skewW, "skew_holder": skewH})
			rep.Write(true)
			os.Exit(0)
		}
		if i%500 == 0 {
			rep.DistinctCase(vc.Hash64(fmt.Sprint("handoff", skewW, skewH)))
			if held := leaked(locker, []string{"a"}); held != nil {
				rep.Violate("lock-left-behind:handoff", strings.Join(held, ","), i, nil)
			}
		}
	})
	rep.Sample(map[string]any{"scenario": "holder releases while a conflicting request enqueues", "note": "both released by one barrier with 0-39 spins of skew each"})
}
