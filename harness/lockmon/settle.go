package main

// "settle" mode: one driver thread issues requests, releases holders and cancels waiters one step at a time and compares
// the lock manager with a reference model after every step (not only at the end of a run, where the last release hides
// every earlier lost wake-up). Clock-free: whether a request was granted at once or queued is learnt from its return /
// from the lock.wait hook; a request that should have been granted by a release is awaited on its channel, and if the
// watchdog fires a probe with an already-cancelled context decides whether its accounts are really free.

import (
	"context"
	"fmt"
	"time"

	"github.com/formancehq/ledger/internal/engine/command"
	"github.com/formancehq/ledger/internal/verifhook"
	vc "github.com/formancehq/ledger/internal/verif/vcommon"
)

type settleReq struct {
	id      int
	acc     command.Accounts
	ctx     context.Context
	cancel  context.CancelFunc
	queued  chan struct{}       // closed by the lock.wait hook
	granted chan command.Unlock // the grant, whenever it comes
	failed  chan error          // Lock returned an error
	unlock  command.Unlock
}

type settleCtl struct{ q chan struct{} }

func (c *settleCtl) Yield(ctx context.Context, point string) {}
func (c *settleCtl) Block(ctx context.Context, point string) {
	if point == "lock.wait" {
		close(c.q)
	}
}

func compatible(p command.Accounts, holders map[int]*settleReq) bool {
	for _, h := range holders {
		for _, a := range p.Read {
			for _, w := range h.acc.Write {
				if a == w {
					return false
				}
			}
		}
		for _, a := range p.Write {
			for _, w := range h.acc.Write {
				if a == w {
					return false
				}
			}
			for _, w := range h.acc.Read {
				if a == w {
					return false
				}
			}
		}
	}
	return true
}

const settleWatchdog = 20 * time.Second

func runSettle(cfg *vc.Config, rep *vc.Report) {
	undecided := 0
	cfg.Cases(6000, 400000, func(i int, r *vc.Rand) {
		if undecided >= 3 {
			return // every undecided case costs a watchdog period; three of them already make the run inconclusive
		}
		locker := command.NewDefaultLocker()
		pool := []string{"a", "b", "c", "d", "e"}[:r.Range(2, 5)]
		holders := map[int]*settleReq{}
		var pending []*settleReq
		var steps []string
		sh := newShadow()
		nextID := 0
		rep.Eval()
		desc := func() map[string]any { return map[string]any{"index": i, "accounts": pool, "steps": steps} }
		bad := false
		viol := func(rule, what string) {
			if !bad {
				rep.Violate(rule, what, i, desc())
			}
			bad = true
		}
		grant := func(q *settleReq, u command.Unlock) {
			q.unlock = u
			if c := sh.enter(q.id, q.acc); c != "" {
				viol("overlap:settle", c)
			}
			holders[q.id] = q
		}
		// probeFree: can a request with these accounts be granted right now? (synchronous fast path, see leaked())
		probeFree := func(acc command.Accounts) bool {
			ctx, cancel := context.WithCancel(context.Background())
			cancel()
			u, err := locker.Lock(ctx, acc)
			if err != nil {
				return false
			}
			u(context.Background())
			return true
		}
		// settle: grants the model expects after a release / cancellation, in queue order (greedy, like any work-conserving
		// manager: a request is expected as soon as no current holder conflicts with it)
		settle := func(after string) {
			for again := true; again && !bad; {
				again = false
				for k, p := range pending {
					if !compatible(p.acc, holders) {
						continue
					}
					select {
					case u := <-p.granted:
						grant(p, u)
						rep.Inc("settle_grants_after_release")
					case err := <-p.failed:
						viol("error-without-cancellation:settle", fmt.Sprintf("request #%d: %v", p.id, err))
					case <-time.After(50 * time.Millisecond):
						// no report yet. The release has returned, so every grant it causes has been made: if a probe finds all of
						// the request's accounts free, the request holds nothing, i.e. it was passed over (the clock decides nothing)
						proven := false
						if len(p.acc.Write) > 0 {
							// had it been granted, its write accounts would refuse an identical request
							proven = probeFree(p.acc)
						} else {
							// read-only request: had it been granted, a writer would be refused on each of its accounts; usable on
							// accounts no current holder reads
							for _, a := range p.acc.Read {
								if compatible(command.Accounts{Write: []string{a}}, holders) && probeFree(command.Accounts{Write: []string{a}}) {
									proven = true
									break
								}
							}
						}
						if proven {
							viol("pending-although-no-conflicting-holder", fmt.Sprintf("request #%d (read %v, write %v) is still waiting after %s; a probe shows that it holds nothing and that nothing it needs is held against it", p.id, p.acc.Read, p.acc.Write, after))
							break
						}
						// the probe cannot tell (the request may hold its accounts and be slow to report): wait for the report
						select {
						case u := <-p.granted:
							grant(p, u)
							rep.Inc("settle_grants_after_release")
							rep.Inc("settle_slow_reports")
						case err := <-p.failed:
							viol("error-without-cancellation:settle", fmt.Sprintf("request #%d: %v", p.id, err))
						case <-time.After(settleWatchdog):
							rep.Inconc(fmt.Sprintf("case %d: request #%d not reported as granted within %s after %s; the probe cannot tell", i, p.id, settleWatchdog, after))
							bad = true
							undecided++
						}
					}
					pending = append(pending[:k:k], pending[k+1:]...)
					again = true
					break
				}
			}
		}
		nSteps := r.Range(6, 30)
		for s := 0; s < nSteps && !bad; s++ {
			switch x := r.Intn(10); {
			case x < 5 || (len(holders) == 0 && len(pending) == 0): // a new request
				acc := genAccounts(r, pool)
				if r.Chance(1, 4) { // read-only requests over several accounts (a transaction funded by @world reads its destinations)
					acc = command.Accounts{}
					for _, a := range pool {
						if r.Bool() {
							acc.Read = append(acc.Read, a)
						}
					}
					r.Shuffle(len(acc.Read), func(a, b int) { acc.Read[a], acc.Read[b] = acc.Read[b], acc.Read[a] })
				}
				q := &settleReq{id: nextID, acc: acc, queued: make(chan struct{}), granted: make(chan command.Unlock, 1), failed: make(chan error, 1)}
				nextID++
				base, cancel := context.WithCancel(context.Background())
				q.cancel = cancel
				q.ctx = verifhook.WithController(base, &settleCtl{q: q.queued})
				steps = append(steps, fmt.Sprintf("#%d lock read=%v write=%v", q.id, acc.Read, acc.Write))
				go func() {
					u, err := locker.Lock(q.ctx, q.acc)
					if err != nil {
						q.failed <- err
						return
					}
					q.granted <- u
				}()
				want := compatible(acc, holders)
				select {
				case u := <-q.granted:
					if !want {
						// the shadow table reports the overlap
					}
					grant(q, u)
					rep.Inc("settle_direct_grants")
				case <-q.queued:
					if want {
						// queued although nobody conflicts: it must then be granted without any further release
						pending = append(pending, q)
						settle(fmt.Sprintf("its own arrival (#%d)", q.id))
					} else {
						pending = append(pending, q)
						rep.Inc("settle_queued")
					}
				case err := <-q.failed:
					viol("error-without-cancellation:settle", fmt.Sprintf("request #%d: %v", q.id, err))
				case <-time.After(settleWatchdog):
					rep.Inconc(fmt.Sprintf("case %d: request #%d neither returned nor reached lock.wait", i, q.id))
					bad = true
				}
			case x < 8 && len(holders) > 0: // release a holder
				var ids []int
				for id := range holders {
					ids = append(ids, id)
				}
				sortInts(ids)
				h := holders[ids[r.Intn(len(ids))]]
				steps = append(steps, fmt.Sprintf("#%d release", h.id))
				sh.leave(h.id, h.acc)
				delete(holders, h.id)
				h.unlock(context.Background())
				rep.Inc("settle_releases")
				if len(pending) > 0 {
					rep.Inc("settle_releases_with_waiters")
				}
				settle(fmt.Sprintf("the release of #%d", h.id))
			case len(pending) > 0: // a waiter gives up
				k := r.Intn(len(pending))
				p := pending[k]
				steps = append(steps, fmt.Sprintf("#%d cancel", p.id))
				p.cancel()
				select {
				case <-p.failed:
					rep.Inc("settle_cancellations")
				case u := <-p.granted:
					viol("granted-after-cancellation:settle", fmt.Sprintf("request #%d was cancelled while no release happened, yet it was granted", p.id))
					u(context.Background())
				case <-time.After(settleWatchdog):
					rep.Inconc(fmt.Sprintf("case %d: cancelled request #%d did not return", i, p.id))
					bad = true
				}
				pending = append(pending[:k:k], pending[k+1:]...)
				settle(fmt.Sprintf("the cancellation of #%d", p.id))
			}
		}
		// wind down: release everything, every waiter must come through
		for !bad && len(holders) > 0 {
			var ids []int
			for id := range holders {
				ids = append(ids, id)
			}
			sortInts(ids)
			h := holders[ids[0]]
			steps = append(steps, fmt.Sprintf("#%d release", h.id))
			sh.leave(h.id, h.acc)
			delete(holders, h.id)
			h.unlock(context.Background())
			settle(fmt.Sprintf("the release of #%d", h.id))
		}
		if !bad && len(pending) > 0 {
			viol("pending-at-quiescence:settle", fmt.Sprintf("%d request(s) still waiting after every holder released", len(pending)))
		}
		if !bad {
			if l := leaked(locker, pool); len(l) > 0 {
				viol("lock-left-behind:settle", fmt.Sprintf("accounts still held after everything was released: %v", l))
			}
		}
		for _, p := range pending { // do not leave goroutines behind
			p.cancel()
		}
		rep.DistinctCase(vc.Hash64(steps...))
	})
}

func sortInts(xs []int) {
	for a := 1; a < len(xs); a++ {
		for b := a; b > 0 && xs[b] < xs[b-1]; b-- {
			xs[b], xs[b-1] = xs[b-1], xs[b]
		}
	}
}
